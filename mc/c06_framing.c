/* c06_framing.c - C06: responses are framed: ';' between units, ',' between items, one terminator.
 * Bounded-exhaustive: every message of 1..K units over 17 unit kinds (commands that succeed / fail, queries
 * that emit 0/1/2/4 results of rotating types and then succeed, fail with or without an own error, or leave a
 * parameter unread, an undefined header, an invalid unit, an empty unit), each executed on a fresh context and
 * after each of 13 predecessor messages (histories that leave separator / block accounting state or a full error queue behind).
 * Oracle: framing model of the statement.  A unit responds iff it is a query whose handler emitted at least
 * one result or completed without error; expected bytes = the responding units' result lists joined by ','
 * within and ';' between units, then exactly one line terminator and one flush iff any unit responded.
 */
#include "ctx.h"

/* ---- result emissions of rotating type ------------------------------------------------------------------ */
#define NT 17
typedef struct { const char * bytes; size_t len; int items; } emis_t;
static const emis_t emis[NT] = {
    {"7", 1, 1}, {"#HFF", 4, 1}, {"-5", 2, 1}, {"1.5", 3, 1}, {"1", 1, 1}, {"\"a\"\"b\"", 6, 1}, {"XY", 2, 1}, {"#13a;\n", 6, 1},
    {"#13abc", 6, 1}, {"1,-2,3", 6, 3}, {"", 0, 0}, {"2.5", 3, 1}, {"#Q10", 4, 1}, {"#18\0\0\0\1\0\0\0\2", 11, 1}, {"#10", 3, 1},
    {"\"\"", 2, 1},                 /* an empty text is an item like any other */
#if USE_DEVICE_DEPENDENT_ERROR_INFORMATION && USE_MEMORY_ALLOCATION_FREE
    {"-113,\"Undefined header;it's a \"\"b\"\"\"", 36, 2},         /* the text holds an apostrophe (left alone) and double quotes (doubled) */
#else
    {"-113,\"Undefined header\"", 23, 2},
#endif
};
static unsigned rot_impl, rot_model;

static void emit(scpi_t * c) {
    static const int16_t a16[3] = {1, -2, 3};
    static const int32_t a32[2] = {1, 2};
    static const uint8_t a8[1] = {0};
    static const double ad[1] = {0};
    scpi_error_t e;
    switch (rot_impl++ % NT) {
        case 0: SCPI_ResultInt32(c, 7); break;
        case 1: SCPI_ResultUInt32Base(c, 255, 16); break;
        case 2: SCPI_ResultInt64(c, -5); break;
        case 3: SCPI_ResultDouble(c, 1.5); break;
        case 4: SCPI_ResultBool(c, TRUE); break;
        case 5: SCPI_ResultText(c, "a\"b"); break;
        case 6: SCPI_ResultMnemonic(c, "XY"); break;
        case 7: SCPI_ResultArbitraryBlock(c, "a;\n", 3); break;          /* the last data byte is the last byte of the line terminator */
        case 8: SCPI_ResultArbitraryBlockHeader(c, 3); SCPI_ResultArbitraryBlockData(c, "ab", 2); SCPI_ResultArbitraryBlockData(c, "c", 1); break;
        case 9: SCPI_ResultArrayInt16(c, a16, 3, SCPI_FORMAT_ASCII); break;
        case 10: SCPI_ResultArrayUInt8(c, a8, 0, SCPI_FORMAT_ASCII); break;
        case 11: SCPI_ResultFloat(c, 2.5f); break;
        case 12: SCPI_ResultUInt64Base(c, 8, 8); break;
        case 13: SCPI_ResultArrayInt32(c, a32, 2, SCPI_FORMAT_NORMAL); break;
        case 14: SCPI_ResultArrayDouble(c, ad, 0, SCPI_FORMAT_NORMAL); break;
        case 15: SCPI_ResultText(c, ""); break;
        default: memset(&e, 0, sizeof e); e.error_code = -113;
#if USE_DEVICE_DEPENDENT_ERROR_INFORMATION && USE_MEMORY_ALLOCATION_FREE
            e.device_dependent_info = (char *) "it's a \"b\"";
#endif
            SCPI_ResultError(c, &e); break;
    }
}

/* ---- unit kinds ---------------------------------------------------------------------------------------------- */
enum { U_C0, U_CE, U_Q0, U_Q1, U_Q2, U_Q4, U_Q0E, U_Q1E, U_Q2X, U_Q1P, U_Q0P, U_Q0X, U_Q4E, U_UNDEF, U_INVALID, U_EMPTY, U_CP, U_Q0Y, NKIND, U_QPART };
static const char * utext[] = { "C0", "CE", "Q0?", "Q1?", "Q2?", "Q4?", "Q0E?", "Q1E?", "Q2X?", "Q1P? 5", "Q0P? 5", "Q0X?", "Q4E?", "UNDEF?", "@", "", "C0 5", "Q0Y?", "", "QPART?" };
/* emissions, handler result: 0 OK / 1 ERR without own error / 2 ERR with own error / 3 own error with a positive (device designer's) code
 * and return value OK, is query, leftover parameter */
static const struct { int n, res, query, leftover, defined; } ukind[] = {
    {0, 0, 0, 0, 1}, {0, 1, 0, 0, 1}, {0, 0, 1, 0, 1}, {1, 0, 1, 0, 1}, {2, 0, 1, 0, 1}, {4, 0, 1, 0, 1}, {0, 1, 1, 0, 1}, {1, 1, 1, 0, 1}, {2, 2, 1, 0, 1},
    {1, 0, 1, 1, 1}, {0, 0, 1, 1, 1}, {0, 2, 1, 0, 1}, {4, 1, 1, 0, 1}, {0, 0, 1, 0, 0}, {0, 0, 0, 0, 0}, {0, 0, 0, 0, 0}, {0, 0, 0, 1, 1}, {0, 3, 1, 0, 1}, {0, 0, 0, 0, 0}, {0, 0, 1, 0, 1},
};

static scpi_result_t h_generic(scpi_t * c) {
    int k = (int) SCPI_CmdTag(c), i;
    tr_printf("H%d;", k);
    if (k == U_QPART) { SCPI_ResultArbitraryBlockHeader(c, 10); SCPI_ResultArbitraryBlockData(c, "abc", 3); return SCPI_RES_OK; }
    for (i = 0; i < ukind[k].n; i++) emit(c);
    if (ukind[k].res == 2) SCPI_ErrorPush(c, -222);
    if (ukind[k].res == 3) { SCPI_ErrorPush(c, 17); return SCPI_RES_OK; }
    return ukind[k].res ? SCPI_RES_ERR : SCPI_RES_OK;
}
/* a query with very many result items (item accounting must not wrap) */
static scpi_result_t h_big(scpi_t * c) {
    int32_t n = 0, i;
    int16_t * a;
    if (!SCPI_ParamInt32(c, &n, TRUE)) return SCPI_RES_ERR;
    a = (int16_t *) malloc(sizeof (int16_t) * (size_t) n);
    for (i = 0; i < n; i++) a[i] = (int16_t) (i % 7);
    if (n & 1) SCPI_ResultArrayInt16(c, a, (size_t) n, SCPI_FORMAT_ASCII); else for (i = 0; i < n; i++) SCPI_ResultInt32(c, a[i]);
    free(a);
    return SCPI_RES_OK;
}
/* a block of n bytes as the FIRST item of its unit, followed by a second item */
static scpi_result_t h_blkn(scpi_t * c) {
    int32_t n = 0; char * d;
    if (!SCPI_ParamInt32(c, &n, TRUE)) return SCPI_RES_ERR;
    d = (char *) malloc((size_t) n + 1); memset(d, 'x', (size_t) n);
    if (n & 1) SCPI_ResultArbitraryBlock(c, d, (size_t) n);
    else { size_t off = 0; SCPI_ResultArbitraryBlockHeader(c, (size_t) n); while (off < (size_t) n) { size_t k = (size_t) n - off < 30000 ? (size_t) n - off : 30000; SCPI_ResultArbitraryBlockData(c, d + off, k); off += k; } }
    SCPI_ResultInt32(c, 7);
    free(d);
    return SCPI_RES_OK;
}
static const scpi_command_t cmds[] = {
    {"QBIG?", h_big, 99}, {"QBLK?", h_blkn, 98},
    {"C0", h_generic, U_C0}, {"CE", h_generic, U_CE}, {"Q0?", h_generic, U_Q0}, {"Q1?", h_generic, U_Q1}, {"Q2?", h_generic, U_Q2}, {"Q4?", h_generic, U_Q4},
    {"Q0E?", h_generic, U_Q0E}, {"Q1E?", h_generic, U_Q1E}, {"Q2X?", h_generic, U_Q2X}, {"Q1P?", h_generic, U_Q1P}, {"Q0P?", h_generic, U_Q0P}, {"Q0X?", h_generic, U_Q0X},
    {"Q4E?", h_generic, U_Q4E}, {"QPART?", h_generic, U_QPART}, {"Q0Y?", h_generic, U_Q0Y},
    /* the handlers the library ships */
    {"*CLS", SCPI_CoreCls, 0}, {"*ESE", SCPI_CoreEse, 0}, {"*ESE?", SCPI_CoreEseQ, 0}, {"*ESR?", SCPI_CoreEsrQ, 0}, {"*IDN?", SCPI_CoreIdnQ, 0}, {"*OPC", SCPI_CoreOpc, 0}, {"*OPC?", SCPI_CoreOpcQ, 0},
    {"*RST", SCPI_CoreRst, 0}, {"*SRE", SCPI_CoreSre, 0}, {"*SRE?", SCPI_CoreSreQ, 0}, {"*STB?", SCPI_CoreStbQ, 0}, {"*TST?", SCPI_CoreTstQ, 0}, {"*WAI", SCPI_CoreWai, 0},
    {"SYSTem:ERRor[:NEXT]?", SCPI_SystemErrorNextQ, 0}, {"SYSTem:ERRor:COUNt?", SCPI_SystemErrorCountQ, 0}, {"SYSTem:VERSion?", SCPI_SystemVersionQ, 0},
    {"STATus:QUEStionable[:EVENt]?", SCPI_StatusQuestionableEventQ, 0}, {"STATus:QUEStionable:ENABle", SCPI_StatusQuestionableEnable, 0}, {"STATus:QUEStionable:ENABle?", SCPI_StatusQuestionableEnableQ, 0},
    {"STATus:OPERation:CONDition?", SCPI_StatusOperationConditionQ, 0}, {"STATus:PRESet", SCPI_StatusPreset, 0}, {"STUB", SCPI_Stub, 0}, {"STUB?", SCPI_StubQ, 0},
    SCPI_CMD_LIST_END
};

static const char * preds[] = { "", "Q1?\n", "Q1?;Q0E?\n", "Q1E?\n", "Q2X?\n", "QPART?\n", "@\n", "UNDEF?\n", "Q1P? 5\n", "C0;CE\n", "Q4?;Q0X?\n", "Q0?\n", "Q1?;QPART?\n",
    /* fills the error queue (capacity 32) completely: every later error overflows */
    "CE;CE;CE;CE;CE;CE;CE;CE;CE;CE;CE;CE;CE;CE;CE;CE;CE;CE;CE;CE;CE;CE;CE;CE;CE;CE;CE;CE;CE;CE;CE;CE;CE;CE\n" };
#define NPRED ((int) (sizeof preds / sizeof preds[0]))

static unsigned long long n_msgs = 0, n_responding = 0, n_silent = 0, n_units = 0, n_sep = 0;
static tc_t T;

/* compares what the implementation did (OUT, TR, counters - fixed after SCPI_Input) with the model that executes the first km of the k units */
static int judge(const int * units, int k, int km, int pred, const char * msg, size_t ml, unsigned rot0, int report) {
    char exp[1024];
    size_t el = 0;
    int u, responded = 0, errs = 0, nerr = tc_nerr;
    (void) k;
    rot_model = rot0;
    /* model */
    for (u = 0; u < km; u++) {
        int kd = units[u], i, items = 0;
        size_t start = el;
        if (report) n_units++;
        if (!ukind[kd].defined) { if (kd != U_EMPTY) errs++; continue; }
        if (ukind[kd].query) {
            int responds;
            size_t body = 0;
            char tmp[256];
            for (i = 0; i < ukind[kd].n; i++) {
                const emis_t * e = &emis[rot_model++ % NT];
                if (e->items == 0) continue;
                if (items) tmp[body++] = ',';
                memcpy(tmp + body, e->bytes, e->len); body += e->len;
                items += e->items;
            }
            responds = items > 0 || ukind[kd].res == 0;
            if (responds) {
                if (responded) { exp[el++] = ';'; if (report) n_sep++; }
                memcpy(exp + el, tmp, body); el += body;
                responded++;
            }
        }
        (void) start;
        if (ukind[kd].res || ukind[kd].leftover) errs++;
    }
    if (responded) { memcpy(exp + el, SCPI_LINE_ENDING, strlen(SCPI_LINE_ENDING)); el += strlen(SCPI_LINE_ENDING); if (report) n_responding++; } else if (report) n_silent++;
    if (OUTN != el || memcmp(OUT, exp, el)) {
        const char * why = "c06/output";
        if (!responded && OUTN) why = "c06/output-without-response";
        else if (responded && OUTN >= strlen(SCPI_LINE_ENDING) && el >= 2 && memcmp(OUT + OUTN - strlen(SCPI_LINE_ENDING), SCPI_LINE_ENDING, strlen(SCPI_LINE_ENDING))) why = "c06/terminator-missing";
        else if (responded && OUTN == 0) why = "c06/response-missing";
        else {
            size_t i, sc_o = 0, sc_e = 0;
            for (i = 0; i < OUTN; i++) sc_o += OUT[i] == ';';
            for (i = 0; i < el; i++) sc_e += exp[i] == ';';
            if (sc_o > sc_e) why = "c06/extra-unit-separator"; else if (sc_o < sc_e) why = "c06/missing-unit-separator";
            else { sc_o = sc_e = 0; for (i = 0; i < OUTN; i++) sc_o += OUT[i] == ','; for (i = 0; i < el; i++) sc_e += exp[i] == ','; if (sc_o != sc_e) why = "c06/item-separator"; }
        }
        if (report) mc_viol(why, "after [%s] message [%s]: output [%s], model [%s]", mc_es(preds[pred]), mc_e(msg, ml), mc_e(OUT, OUTN), mc_e(exp, el));
        return 0;
    }
    if (tc_flushes != (responded ? 1 : 0)) { if (report) mc_viol("c06/flush-count", "after [%s] message [%s]: %d flushes, %d responding units", mc_es(preds[pred]), mc_e(msg, ml), tc_flushes, responded); return 0; }
    if (responded) { char f[32]; snprintf(f, sizeof f, "F@%u;", (unsigned) el); if (!strstr(TR, f) ) { if (report) mc_viol("c06/flush-position", "message [%s]: flush not at the end of the response: trace [%s]", mc_e(msg, ml), mc_es(TR)); return 0; } }
    if (pred == NPRED - 1) { int e2, real = 0; for (e2 = 0; e2 < tc_nerr; e2++) if (tc_errs[e2] != SCPI_ERROR_QUEUE_OVERFLOW) real++; nerr = real; }
    if (nerr != errs) { if (report) mc_viol("c06/error-count", "after [%s] message [%s]: %d errors raised, model %d; trace [%s]", mc_es(preds[pred]), mc_e(msg, ml), nerr, errs, mc_es(TR)); return 0; }
    if (report) mc_outcome(mc_hash(OUT, OUTN, (uint64_t) tc_flushes));
    return 1;
}


static void run_message(const int * units, int k, int pred) {
    char msg[512];
    size_t ml = 0;
    int u, first_invalid = -1;
    unsigned rot0;
    for (u = 0; u < k; u++) { if (u) msg[ml++] = ';'; ml += (size_t) sprintf(msg + ml, "%s", utext[units[u]]); }
    msg[ml++] = '\n';
    tc_reinit(&T, cmds);
    if (pred) { tr_reset(); SCPI_Input(&T.ctx, preds[pred], (int) strlen(preds[pred])); if (pred != NPRED - 1) tc_drain(&T); }
    rot0 = rot_impl;
    tr_reset();
    mc_case_s[0] = (const unsigned char *) msg; mc_case_n[0] = ml; mc_case_i[0] = pred;
    SCPI_Input(&T.ctx, msg, (int) ml);
    n_msgs++;
    for (u = 0; u < k; u++) if (units[u] == U_INVALID) { first_invalid = u; break; }
    /* The statement frames whatever responds.  Whether the units BEHIND a unit with an invalid character are still executed (the pinned
     * tree re-synchronises behind the character) or the rest of the message is discarded (IEEE 488.2 6.1.6.1.1 allows that) is not its
     * subject: both executions are accepted, each with its own framing. */
    if (judge(units, k, k, pred, msg, ml, rot0, 0)) { judge(units, k, k, pred, msg, ml, rot0, 1); return; }
    if (first_invalid >= 0 && first_invalid < k - 1 && judge(units, k, first_invalid + 1, pred, msg, ml, rot0, 0)) { judge(units, k, first_invalid + 1, pred, msg, ml, rot0, 1); return; }
    judge(units, k, k, pred, msg, ml, rot0, 1);
}

int main(int argc, char ** argv) {
    int K, k, i, units[8], p;
    mc_init(argc, argv);
    mc_tail_poison = 1;
    tc_init(&T, cmds, 256, 32);
    K = mc_thorough ? 6 : 5;
    for (k = 1; k <= K; k++) {
        for (i = 0; i < k; i++) units[i] = 0;
        for (;;) {
            for (p = 0; p < NPRED; p++) {
                if (k == 6 && p > 3) continue;          /* 6-unit messages: 4 histories only */
                if (MC_CASE()) { mc_case_tag = "message"; run_message(units, k, p); }
            }
            for (i = k - 1; i >= 0; i--) { if (++units[i] < NKIND) break; units[i] = 0; }
            if (i < 0) break;
        }
    }
    {   /* units with 254..1025 result items, alone and between two other responding units */
        static const int counts[] = {254, 255, 256, 257, 258, 300, 511, 512, 513, 1000, 1024, 1025};
        int ci, form;
        for (ci = 0; ci < 12; ci++) for (form = 0; form < 2; form++) {
            char msg[64], * exp = (char *) malloc(8192);
            size_t el = 0; int i, ml;
            if (!MC_CASE()) { free(exp); continue; }
            mc_case_tag = "many-items"; mc_case_i[0] = counts[ci]; mc_case_i[1] = form;
            ml = sprintf(msg, form ? "Q1?;QBIG? %d;Q1?\n" : "QBIG? %d\n", counts[ci]);
            tc_reinit(&T, cmds); rot_impl = 0; tr_reset();
            SCPI_Input(&T.ctx, msg, ml);
            n_msgs++;
            if (form) { memcpy(exp, "7;", 2); el = 2; }
            for (i = 0; i < counts[ci]; i++) { if (i) exp[el++] = ','; exp[el++] = (char) ('0' + i % 7); }
            if (form) { memcpy(exp + el, ";#HFF", 5); el += 5; }
            memcpy(exp + el, SCPI_LINE_ENDING, strlen(SCPI_LINE_ENDING)); el += strlen(SCPI_LINE_ENDING);
            if (OUTN != el || memcmp(OUT, exp, el)) {
                size_t k = 0; while (k < OUTN && k < el && OUT[k] == exp[k]) k++;
                mc_viol("c06/item-separator/many-items", "message [%s]: output differs from the model at offset %d: got [%s], expected [%s]", mc_e(msg, (size_t) ml), (int) k, mc_e(OUT + (k > 6 ? k - 6 : 0), 14), mc_e(exp + (k > 6 ? k - 6 : 0), 14));
            } else { n_responding++; }
            free(exp);
        }
    }
    {   /* the query and command handlers the library ships: every message of <= 3 units over 22 of them (headers written from the root
         * so that no path is inherited) on a context holding two errors and some event bits.  Differential oracle: the same units
         * sent one per message to an identically prepared context give responses r1..rk; the message must write exactly the non-empty
         * ri without their terminators, joined by ';', then one terminator (nothing at all if every ri is empty). */
        static const char * lu[] = {"*IDN?", "*TST?", "*OPC?", "*ESE?", "*ESR?", "*SRE?", "*STB?", ":SYST:ERR?", ":SYST:ERR:COUN?", ":SYST:VERS?", ":STAT:QUES?", ":STAT:QUES:ENAB?",
                                    ":STAT:OPER:COND?", "*RST", "*CLS", "*WAI", "*OPC", "*ESE 36", ":STAT:QUES:ENAB 3", ":STAT:PRES", ":STUB", ":STUB?", ":Q1E?"};      /* no undefined header here: the text of its -113 is the whole unit, unit separator included, so SYST:ERR? would differ */
        const int NLU = (int) (sizeof lu / sizeof lu[0]);
        const size_t tl = strlen(SCPI_LINE_ENDING);
        int KL = mc_thorough ? 4 : 3, idx[4];
        for (k = 1; k <= KL; k++) {
            for (i = 0; i < k; i++) idx[i] = 0;
            for (;;) {
                if (MC_CASE()) {
                    char msg[160], exp[1200]; size_t ml = 0, el = 0; int any = 0;
                    mc_case_tag = "library-handlers";
                    for (i = 0; i < k; i++) ml += (size_t) sprintf(msg + ml, "%s%s", i ? ";" : "", lu[idx[i]]);
                    msg[ml++] = '\n';
                    mc_case_s[0] = (const unsigned char *) msg; mc_case_n[0] = ml;
                    /* reference: one unit per message */
                    tc_reinit(&T, cmds); rot_impl = 0;
                    SCPI_ErrorPush(&T.ctx, -222); SCPI_ErrorPush(&T.ctx, -113); SCPI_RegSet(&T.ctx, SCPI_REG_QUES, 5); SCPI_RegSet(&T.ctx, SCPI_REG_OPERC, 0x11);
                    for (i = 0; i < k; i++) {
                        char one[80]; int ol = sprintf(one, "%s\n", lu[idx[i]]);
                        tr_reset();
                        SCPI_Input(&T.ctx, one, ol);
                        if (OUTN >= tl && el + OUTN + 2 < sizeof exp) { if (any) exp[el++] = ';'; memcpy(exp + el, OUT, OUTN - tl); el += OUTN - tl; any = 1; }
                    }
                    if (any) { memcpy(exp + el, SCPI_LINE_ENDING, tl); el += tl; }
                    tc_reinit(&T, cmds); rot_impl = 0;
                    SCPI_ErrorPush(&T.ctx, -222); SCPI_ErrorPush(&T.ctx, -113); SCPI_RegSet(&T.ctx, SCPI_REG_QUES, 5); SCPI_RegSet(&T.ctx, SCPI_REG_OPERC, 0x11);
                    tr_reset();
                    SCPI_Input(&T.ctx, msg, (int) ml);
                    n_msgs++;
                    if (OUTN != el || memcmp(OUT, exp, el)) mc_viol("c06/library-handlers", "message [%s] wrote [%s]; its units sent one per message wrote, joined: [%s]", mc_e(msg, ml), mc_e(OUT, OUTN < 300 ? OUTN : 300), mc_e(exp, el < 300 ? el : 300));
                    else if (any && tc_flushes != 1) mc_viol("c06/library-handlers/flush", "message [%s]: %d flushes", mc_e(msg, ml), tc_flushes);
                    else if (any) n_responding++; else n_silent++;
                }
                for (i = k - 1; i >= 0; i--) { if (++idx[i] < NLU) break; idx[i] = 0; }
                if (i < 0) break;
            }
        }
    }
    {   /* blocks of 255 .. 131073 bytes as first item of a unit: total output length and hash against the model */
        static const int sizes[] = {255, 256, 257, 65535, 65536, 65537, 70000, 131072, 131073};
        int si;
        for (si = 0; si < 9; si++) {
            char msg[64], hdr[24]; int ml, hl, n = sizes[si], i2; uint64_t h = 0xcbf29ce484222325ULL; unsigned long long total;
            if (!MC_CASE()) continue;
            mc_case_tag = "big-block"; mc_case_i[0] = n;
            ml = sprintf(msg, "Q1?;QBLK? %d;Q1?\n", n);
            { char num[16]; int nl = sprintf(num, "%d", n); hl = sprintf(hdr, "7;#%d%s", nl, num); }
#define HB(ch) do { h ^= (unsigned char) (ch); h *= 0x100000001b3ULL; } while (0)
            for (i2 = 0; i2 < hl; i2++) HB(hdr[i2]);
            for (i2 = 0; i2 < n; i2++) HB('x');
            { const char * tail = ",7;#HFF"; for (i2 = 0; tail[i2]; i2++) HB(tail[i2]); for (i2 = 0; SCPI_LINE_ENDING[i2]; i2++) HB(SCPI_LINE_ENDING[i2]); }
            total = (unsigned long long) hl + (unsigned long long) n + 7 + strlen(SCPI_LINE_ENDING);
            tc_reinit(&T, cmds); rot_impl = 0; tr_reset();
            SCPI_Input(&T.ctx, msg, ml);
            n_msgs++;
            if (OUT_TOTAL != total || OUT_HASH != h || tc_nerr) mc_viol("c06/big-block", "message [%s]: %llu bytes written (errors raised: %d), the model expects %llu bytes 7;#<digits>%d<data>,7;#HFF<terminator>%s", mc_e(msg, (size_t) ml), OUT_TOTAL, tc_nerr, total, n, OUT_TOTAL == total ? " - same length, different bytes" : "");
            else n_responding++;
        }
    }
    if (mc_shard == 0) {
        mc_sample("message [Q1?;Q0E?;Q2?\\n] -> 7;#HFF,-5\\r\\n (the failing empty query contributes neither a unit nor a separator)");
        mc_sample("message [Q1E?;C0;Q1?\\n] -> 7;#HFF\\r\\n (a query that wrote a result and then failed still is a response unit)");
        mc_sample("after [Q1?;QPART?\\n] message [CE;@;UNDEF?\\n] -> nothing written, no flush");
    }
    mc_stat("impl_calls", n_msgs);
    mc_stat("nontrivial", n_responding);
    mc_stat("messages_with_response", n_responding);
    mc_stat("messages_without_response", n_silent);
    mc_stat("units", n_units);
    mc_stat("unit_separators_expected", n_sep);
    tc_free(&T);
    return mc_finish();
}
