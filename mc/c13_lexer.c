/* c13_lexer.c - C13: the tokenizer recognises exactly the IEEE 488.2 program-data token syntax.
 * Bounded-exhaustive: for every recogniser, every string of length <= L over an alphabet with one
 * representative per character class it distinguishes, presented
 *   (i)   as an exact-size heap copy (ASan traps any read past the end),
 *   (ii)  at offset 3 of a longer buffer: bytes before and behind the logical input are "attractive"
 *         continuations (digits, letters, quotes) - the result must not depend on them,
 *   (iii) with the cursor in mid-buffer (lex_state.buffer in front of the token start).
 * compared with the reference recognisers of ref_lex.h: return value, token type, extent, length, cursor.
 */
#include "scpi/scpi.h"
#include "lexer_private.h"
#include "parser_private.h"
#include "mc.h"
#include "ref_lex.h"

/* reference token kinds -> the library's enumerators (no reliance on their numeric values) */
static const int tmap[] = {
    SCPI_TOKEN_COMMA, SCPI_TOKEN_SEMICOLON, SCPI_TOKEN_COLON, SCPI_TOKEN_SPECIFIC_CHARACTER, SCPI_TOKEN_QUESTION, SCPI_TOKEN_NL,
    SCPI_TOKEN_HEXNUM, SCPI_TOKEN_OCTNUM, SCPI_TOKEN_BINNUM, SCPI_TOKEN_PROGRAM_MNEMONIC, SCPI_TOKEN_DECIMAL_NUMERIC_PROGRAM_DATA,
    SCPI_TOKEN_DECIMAL_NUMERIC_PROGRAM_DATA_WITH_SUFFIX, SCPI_TOKEN_SUFFIX_PROGRAM_DATA, SCPI_TOKEN_ARBITRARY_BLOCK_PROGRAM_DATA,
    SCPI_TOKEN_SINGLE_QUOTE_PROGRAM_DATA, SCPI_TOKEN_DOUBLE_QUOTE_PROGRAM_DATA, SCPI_TOKEN_PROGRAM_EXPRESSION,
    SCPI_TOKEN_COMPOUND_PROGRAM_HEADER, SCPI_TOKEN_INCOMPLETE_COMPOUND_PROGRAM_HEADER, SCPI_TOKEN_COMMON_PROGRAM_HEADER,
    SCPI_TOKEN_INCOMPLETE_COMMON_PROGRAM_HEADER, SCPI_TOKEN_COMPOUND_QUERY_PROGRAM_HEADER, SCPI_TOKEN_COMMON_QUERY_PROGRAM_HEADER,
    SCPI_TOKEN_WS, SCPI_TOKEN_ALL_PROGRAM_DATA, SCPI_TOKEN_INVALID, SCPI_TOKEN_UNKNOWN };
#define TM(t) (tmap[t])

typedef int (*lexfn_t)(lex_state_t *, scpi_token_t *);
static int lex_specific(lex_state_t * s, scpi_token_t * t) { return scpiLex_SpecificCharacter(s, t, '!'); }
static int lex_alldata_count;
static int lex_alldata(lex_state_t * s, scpi_token_t * t) { return scpiParser_parseAllProgramData(s, t, &lex_alldata_count); }

static rtok_t rf_ws(const char * s, int n) { return ref_ws(s, n); }
static rtok_t rf_comma(const char * s, int n) { return ref_char(s, n, ',', RT_COMMA); }
static rtok_t rf_semi(const char * s, int n) { return ref_char(s, n, ';', RT_SEMICOLON); }
static rtok_t rf_colon(const char * s, int n) { return ref_char(s, n, ':', RT_COLON); }
static rtok_t rf_spec(const char * s, int n) { return ref_char(s, n, '!', RT_SPECIFIC); }

typedef struct {
    const char * name;
    lexfn_t fn;
    rtok_t (*ref)(const char *, int);
    const char * alpha; int nalpha;
    int lq, lt;            /* max length quick / thorough */
    int kind;              /* 0 plain token, 1 program data, 2 all program data */
} rec_t;

#define A(s) s, (int) sizeof (s) - 1
static rec_t recs[] = {
    {"WhiteSpace", scpiLex_WhiteSpace, rf_ws, A(" \tA\n\x80"), 7, 9, 0},
    {"ProgramHeader", scpiLex_ProgramHeader, ref_header, A("Az1_:*? ;\x80"), 6, 7, 0},
    {"CharacterProgramData", scpiLex_CharacterProgramData, ref_chardata, A("Az1_ :\x80"), 7, 8, 0},
    {"DecimalNumericProgramData", scpiLex_DecimalNumericProgramData, ref_decimal, A("1+-.Ee \tA,"), 6, 7, 0},
    {"SuffixProgramData", scpiLex_SuffixProgramData, ref_suffix, A("/.A-1 ,z"), 7, 8, 0},
    {"NondecimalNumericData", scpiLex_NondecimalNumericData, ref_nondecimal, A("#HqB178aG "), 6, 7, 0},
    {"StringProgramData", scpiLex_StringProgramData, ref_string, A("\"'A \n\x80\0\x7f"), 6, 7, 0},
    {"ArbitraryBlockProgramData", scpiLex_ArbitraryBlockProgramData, ref_block, A("#01239A\n "), 6, 7, 0},
    {"ProgramExpression", scpiLex_ProgramExpression, ref_expr, A("()1 \";\x7f\x1f" "A#'~"), 6, 7, 0},
    {"Comma", scpiLex_Comma, rf_comma, A(",;:!A "), 3, 4, 0},
    {"Semicolon", scpiLex_Semicolon, rf_semi, A(",;:!A "), 3, 4, 0},
    {"Colon", scpiLex_Colon, rf_colon, A(",;:!A "), 3, 4, 0},
    {"SpecificCharacter", lex_specific, rf_spec, A(",;:!A "), 3, 4, 0},
    {"NewLine", scpiLex_NewLine, ref_newline, A("\r\nA "), 6, 8, 0},
    {"parseProgramData", scpiParser_parseProgramData, ref_programdata, A(" A1.E#H\"'(),-/2"), 5, 6, 1},
    {"parseAllProgramData", lex_alldata, NULL, A(" A1.E#H\"(),-V2"), 5, 6, 2},
};
#define NREC ((int) (sizeof recs / sizeof recs[0]))
static const char unit_alpha[] = " A:*?1,;\n\r\"#()E.";

static unsigned long long n_calls = 0, n_tokens = 0, n_accept = 0, n_reject = 0, n_empty = 0;
static unsigned long long by_type[32];

static char before3[3] = {'1', 'A', '"'};
static char after_bytes[8] = {'1', 'A', '"', ')', '9', '\'', 'E', '2'};       /* [0] is also set to every byte of the recogniser's alphabet */

/* run fn on input s/n in presentation mode; report cursor displacement, token relative to the start */
typedef struct { int ret, type, off, len, disp, count; int ptr_null; } obs_t;

static obs_t run_rec(const rec_t * r, const char * s, int n, int mode) {
    obs_t o;
    lex_state_t st;
    scpi_token_t tok;
    char * buf, * start;
    tok.type = SCPI_TOKEN_PROGRAM_EXPRESSION; tok.len = 12345; tok.ptr = (char *) 1;
    lex_alldata_count = -77;
    if (mode == 0) {
        buf = (char *) malloc((size_t) n);
        if (n) memcpy(buf, s, (size_t) n);
        start = buf; st.buffer = buf; st.pos = buf; st.len = n;
    } else {
        buf = (char *) malloc((size_t) n + 3 + 8);
        memcpy(buf, before3, 3); if (n) memcpy(buf + 3, s, (size_t) n); memcpy(buf + 3 + n, after_bytes, 8);
        start = buf + 3;
        if (mode == 1) { st.buffer = start; st.pos = start; st.len = n; }
        else { st.buffer = buf; st.pos = start; st.len = n + 3; }
    }
    o.ret = r->fn(&st, &tok);
    o.type = (int) tok.type; o.len = tok.len;
    o.ptr_null = tok.ptr == (char *) 1;
    o.off = o.ptr_null ? -99999 : (int) (tok.ptr - start);
    o.disp = (int) (st.pos - start);
    o.count = lex_alldata_count;
    free(buf);
    n_calls++;
    return o;
}

static void check_token(const rec_t * r, const char * s, int n) {
    int mode;
    rtok_t e = r->ref(s, n);
    char sig[128];
    for (mode = 0; mode < 3 + r->nalpha; mode++) {
        /* placements 3.. : as placement 1 (input embedded, length = end of input) with each byte of the alphabet directly behind the input */
        obs_t o;
        const char * why = NULL;
        if (mode >= 3) after_bytes[0] = r->alpha[mode - 3];
        o = run_rec(r, s, n, mode >= 3 ? 1 : mode);
        after_bytes[0] = '1';
        if (o.disp < 0 || o.disp > n) why = "cursor-out-of-bounds";
        else if (o.ptr_null) why = "token-ptr-not-written";
        else if (o.type != TM(e.type)) why = "type";
        else if (o.disp != e.consumed) why = "cursor";
        else if (o.ret != e.ret) why = "return-value";
        else if (o.len != e.len) why = "length";
        else if (e.type != RT_UNKNOWN && o.off != e.off) why = "extent";
        if (why) {
            snprintf(sig, sizeof sig, "c13/%s/%s", r->name, why);
            mc_viol(sig, "input [%s] placement %d: got ret=%d type=%d off=%d len=%d cursor=%d, reference ret=%d type=%d off=%d len=%d cursor=%d",
                    mc_e(s, (size_t) n), mode, o.ret, o.type, o.off, o.len, o.disp, e.ret, e.type, e.off, e.len, e.consumed);
            return;
        }
    }
    if (e.type != RT_UNKNOWN) { n_tokens++; by_type[e.type]++; }
    { uint64_t h = mc_hash(&e, sizeof e, (uint64_t) (r - recs)); mc_outcome(h); }
}

static void check_alldata(const rec_t * r, const char * s, int n) {
    int mode;
    rlist_t e = ref_alldata(s, n);
    char sig[128];
    for (mode = 0; mode < 3; mode++) {
        obs_t o = run_rec(r, s, n, mode);
        const char * why = NULL;
        if (o.disp < 0 || o.disp > n) why = "cursor-out-of-bounds";
        else if (e.ok) {
            if (o.type != TM(RT_ALL)) why = "wellformed-list-rejected";
            else if (o.count != e.count) why = "parameter-count";
            else if (o.len != e.len || o.ret != e.len) why = "length";
            else if (o.disp != e.consumed) why = "cursor";
            else if (o.off != 0) why = "extent";
        } else {
            if (o.type != TM(RT_UNKNOWN)) why = "malformed-list-accepted";
            else if (o.len != 0 || o.ret != 0) why = "length";
            else if (o.count != e.count) why = "parameter-count";
            else if (o.disp != e.consumed) why = "cursor";
        }
        if (why) {
            snprintf(sig, sizeof sig, "c13/%s/%s", r->name, why);
            mc_viol(sig, "input [%s] placement %d: got ret=%d type=%d len=%d count=%d cursor=%d, reference ok=%d len=%d count=%d cursor=%d",
                    mc_e(s, (size_t) n), mode, o.ret, o.type, o.len, o.count, o.disp, e.ok, e.len, e.count, e.consumed);
            return;
        }
    }
    if (e.ok) n_tokens++;
    { uint64_t h = mc_hash(&e, sizeof e, 99); mc_outcome(h); }
}

static void check_unit(const char * s, int n) {
    int mode;
    runit_t e = ref_unit(s, n);
    for (mode = 0; mode < 2; mode++) {
        scpi_parser_state_t ps;
        char * buf, * start;
        int ret, accepted, hoff, term;
        const char * why = NULL;
        memset(&ps, 0x5a, sizeof ps);
        if (mode == 0) { buf = (char *) malloc((size_t) n); if (n) memcpy(buf, s, (size_t) n); start = buf; }
        else { buf = (char *) malloc((size_t) n + 11); memcpy(buf, before3, 3); if (n) memcpy(buf + 3, s, (size_t) n); memcpy(buf + 3 + n, after_bytes, 8); start = buf + 3; }
        ret = scpiParser_detectProgramMessageUnit(&ps, start, n);
        n_calls++;
        hoff = (int) (ps.programHeader.ptr - start);
        term = ps.termination == SCPI_MESSAGE_TERMINATION_NL ? 1 : ps.termination == SCPI_MESSAGE_TERMINATION_SEMICOLON ? 2 : 0;
        accepted = (ps.programHeader.type == SCPI_TOKEN_COMPOUND_PROGRAM_HEADER || ps.programHeader.type == SCPI_TOKEN_COMPOUND_QUERY_PROGRAM_HEADER ||
                    ps.programHeader.type == SCPI_TOKEN_COMMON_PROGRAM_HEADER || ps.programHeader.type == SCPI_TOKEN_COMMON_QUERY_PROGRAM_HEADER) && ps.numberOfParameters >= 0;
        if (ret < 0 || ret > n) why = "return-out-of-bounds";
        else if (n > 0 && ret == 0) why = "no-progress";
        else if (e.kind == RU_WELLFORMED) {
            if (!accepted) why = "wellformed-unit-rejected";
            else if ((int) ps.programHeader.type != TM(e.header.type)) why = "header-type";
            else if (hoff != e.hdr_off || ps.programHeader.len != e.header.len) why = "header-extent";
            else if (ps.numberOfParameters != e.nparams) why = "parameter-count";
            else if (term != e.term) why = "termination";
            else if (ret != e.consumed) why = "length";
            else if (e.nparams > 0 && (ps.programData.type != SCPI_TOKEN_ALL_PROGRAM_DATA)) why = "data-token";
        } else if (e.kind == RU_EMPTY) {
            if (ps.programHeader.len != 0 || ps.programHeader.type != SCPI_TOKEN_UNKNOWN) why = "empty-unit-has-header";
            else if (term != e.term) why = "termination";
            else if (ret != e.consumed) why = "length";
        } else {
            if (accepted) why = "malformed-unit-accepted";
        }
        free(buf);
        if (why) {
            char sig[128];
            snprintf(sig, sizeof sig, "c13/detectProgramMessageUnit/%s", why);
            mc_viol(sig, "input [%s] placement %d: got ret=%d header(type=%d off=%d len=%d) nparams=%d term=%d; reference kind=%d header(type=%d off=%d len=%d) nparams=%d term=%d consumed=%d",
                    mc_e(s, (size_t) n), mode, ret, (int) ps.programHeader.type, hoff, ps.programHeader.len, ps.numberOfParameters, term,
                    e.kind, e.header.type, e.hdr_off, e.header.len, e.nparams, e.term, e.consumed);
            return;
        }
    }
    if (e.kind == RU_WELLFORMED) n_accept++; else if (e.kind == RU_EMPTY) n_empty++; else n_reject++;
    { uint64_t h = mc_hash(&e, sizeof e, 1234); mc_outcome(h); }
}

/* enumerate all strings of length 0..L over alpha, calling f */
static void enumerate(const char * alpha, int na, int L, void (*f)(const void *, const char *, int), const void * arg, const char * tag) {
    char s[16];
    int idx[16], len, i;
    for (len = 0; len <= L; len++) {
        for (i = 0; i < len; i++) { idx[i] = 0; s[i] = alpha[0]; }
        for (;;) {
            if (MC_CASE()) {
                mc_case_tag = tag; mc_case_s[0] = (const unsigned char *) s; mc_case_n[0] = (size_t) len;
                f(arg, s, len);
            }
            for (i = len - 1; i >= 0; i--) {
                if (++idx[i] < na) { s[i] = alpha[idx[i]]; break; }
                idx[i] = 0; s[i] = alpha[0];
            }
            if (i < 0) break;
        }
    }
}

static void f_token(const void * arg, const char * s, int n) { check_token((const rec_t *) arg, s, n); }
static void f_alldata(const void * arg, const char * s, int n) { check_alldata((const rec_t *) arg, s, n); }
static void f_unit(const void * arg, const char * s, int n) { (void) arg; check_unit(s, n); }

/* every byte value 0..255, alone, doubled and in every position of a 3-byte context typical for the recogniser:
 * the class representatives of the main enumeration must not hide a byte that is classified differently */
static void all_bytes(void) {
    static const char * ctx3[] = {"#H1", "#Q1", "#B1", "A1_", "1E2", "1.V", "\"a\"", "'a'", "(1)", "#11", " \t ", "*A?", ":A:", "1 V", "A,B"};
    int r, b, c, k;
    char s[4];
    for (r = 0; r < NREC; r++) {
        for (b = 0; b < 256; b++) {
            if (!MC_CASE()) continue;
            mc_case_tag = "all-bytes"; mc_case_i[0] = r; mc_case_i[1] = b;
            s[0] = (char) b;
            if (recs[r].kind == 2) check_alldata(&recs[r], s, 1); else check_token(&recs[r], s, 1);
            s[1] = (char) b;
            if (recs[r].kind == 2) check_alldata(&recs[r], s, 2); else check_token(&recs[r], s, 2);
            for (c = 0; c < (int) (sizeof ctx3 / sizeof ctx3[0]); c++) for (k = 0; k < 3; k++) {
                memcpy(s, ctx3[c], 3); s[k] = (char) b;
                if (recs[r].kind == 2) check_alldata(&recs[r], s, 3); else check_token(&recs[r], s, 3);
            }
        }
    }
    for (b = 0; b < 256; b++) {
        static const char * u3[] = {"A 1", "A;B", "*A?", "A:B", "A\nB", "A #", "A\r\n"};
        if (!MC_CASE()) continue;
        mc_case_tag = "all-bytes-unit"; mc_case_i[1] = b;
        for (c = 0; c < 7; c++) for (k = 0; k < 3; k++) { memcpy(s, u3[c], 3); s[k] = (char) b; check_unit(s, 3); }
    }
}

/* grammar-generated long tokens */
static void long_tokens(void) {
    char buf[700];
    int n, k, v;
    {   /* block headers that announce more data than there is, with lengths at and around the limits of 8/16/31-bit counters: nothing may be
         * recognised and the cursor stays inside the input */
        static const char * hdrs[] = {"#3127", "#3128", "#3255", "#3256", "#532767", "#532768", "#540000", "#565535", "#565536", "#599999", "#6100000", "#72147483", "#92147483647",
                                      "#92147483648", "#94294967295", "#94294967296", "#9999999999", "#10", "#200", "#3000"};
        for (k = 0; k < (int) (sizeof hdrs / sizeof hdrs[0]); k++) for (v = 0; v < 3; v++) {
            int hl;
            if (!MC_CASE()) continue;
            mc_case_tag = "block-header-without-data"; mc_case_s[0] = (const unsigned char *) hdrs[k]; mc_case_n[0] = strlen(hdrs[k]); mc_case_i[0] = v;
            hl = snprintf(buf, sizeof buf, "%s%s", hdrs[k], v == 0 ? "" : v == 1 ? "a" : "ab\n");
            check_token(&recs[7], buf, hl);
            check_token(&recs[14], buf, hl);
            { char u[64]; int ul = snprintf(u, sizeof u, "A %s", buf); check_unit(u, ul); }
        }
    }
    for (n = 0; n <= 320; n++) {
        for (v = 0; v < 4; v++) {
            int hl, total;
            if (!MC_CASE()) continue;
            mc_case_tag = "long-block"; mc_case_i[0] = n; mc_case_i[1] = v;
            hl = snprintf(buf, sizeof buf, "#%d%d", n < 10 ? 1 : n < 100 ? 2 : 3, n);
            for (k = 0; k < n + 2; k++) buf[hl + k] = (char) (k % 3 == 0 ? '\n' : k % 3 == 1 ? ';' : '#');
            total = hl + n + (v == 0 ? 0 : v == 1 ? -1 : v == 2 ? 1 : 2);
            if (total < 0) total = 0;
            check_token(&recs[7], buf, total);
            check_token(&recs[14], buf, total);
        }
    }
    for (n = 1; n <= 300; n++) {
        if (!MC_CASE()) continue;
        mc_case_tag = "long-string"; mc_case_i[0] = n;
        buf[0] = '"'; for (k = 1; k <= n; k++) buf[k] = (char) (k % 7 == 0 ? '\'' : 'a' + k % 26); buf[n + 1] = '"';
        if (n > 10) { buf[5] = '"'; buf[6] = '"'; }
        check_token(&recs[6], buf, n + 2);
        check_token(&recs[6], buf, n + 1);
        for (k = 0; k < n; k++) buf[k] = (char) ('0' + k % 10);
        check_token(&recs[3], buf, n);
        for (k = 0; k < n; k++) buf[k] = (char) (k == 0 ? 'A' : k % 5 == 0 ? ':' : k % 5 == 1 ? 'b' : '0' + k % 10);
        check_token(&recs[1], buf, n);
        check_unit(buf, n);
        for (k = 0; k < n; k++) buf[k] = (char) (k == 0 ? 'S' : k % 9 == 8 ? '_' : k % 9 == 4 ? '7' : 'a' + k % 26);       /* ONE mnemonic of n characters */
        check_token(&recs[1], buf, n); check_token(&recs[2], buf, n); check_unit(buf, n);
        if (n + 2 < (int) sizeof buf) { buf[n] = '?'; check_token(&recs[1], buf, n + 1); buf[n] = ':'; buf[n + 1] = 'X'; check_token(&recs[1], buf, n + 2); }
    }
}

int main(int argc, char ** argv) {
    int r;
    mc_init(argc, argv);
    for (r = 0; r < NREC; r++) {
        int L = mc_thorough ? recs[r].lt : recs[r].lq;
        if (recs[r].kind == 2) enumerate(recs[r].alpha, recs[r].nalpha, L, f_alldata, &recs[r], recs[r].name);
        else enumerate(recs[r].alpha, recs[r].nalpha, L, f_token, &recs[r], recs[r].name);
    }
    enumerate(unit_alpha, (int) sizeof unit_alpha - 1, mc_thorough ? 6 : 5, f_unit, NULL, "detectProgramMessageUnit");
    all_bytes();
    long_tokens();
    if (mc_shard == 0) {
        mc_sample("ProgramHeader on every string of length <= %d over [%s]", mc_thorough ? recs[1].lt : recs[1].lq, mc_e(recs[1].alpha, (size_t) recs[1].nalpha));
        mc_sample("detectProgramMessageUnit on every string of length <= %d over [%s]", mc_thorough ? 6 : 5, mc_e(unit_alpha, sizeof unit_alpha - 1));
        mc_sample("StringProgramData input [\"A\"\"\\x80] -> reference: unterminated, no token");
    }
    mc_stat("impl_calls", n_calls);
    mc_stat("nontrivial", n_tokens + n_accept);
    mc_stat("tokens_recognised", n_tokens);
    mc_stat("units_wellformed", n_accept);
    mc_stat("units_malformed", n_reject);
    mc_stat("units_empty", n_empty);
    for (r = 0; r < 27; r++) if (by_type[r]) { char nm[32]; snprintf(nm, sizeof nm, "token_type_%d", r); mc_stat(nm, by_type[r]); }
    return mc_finish();
}
