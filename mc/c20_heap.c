/* c20_heap.c - C20: the allocation-free build stores error texts intact or not at all.
 * Configuration `heap` only (-DUSE_MEMORY_ALLOCATION_FREE=0: texts live in a caller-supplied circular heap).
 *
 * Explicit-state exploration (mcx), one BFS per (heap size H, queue capacity N):
 *   push(L)            SCPI_ErrorPushEx(code_L, text of L copies of a letter that no live entry uses, 0)
 *   push(L, explicit)  same text, explicit shorter info_len
 *   push(no text)      SCPI_ErrorPush
 *   SYST:ERR?          pop + print + release                SCPI_ErrorClear, *CLS
 * Oracle: reference FIFO with "text or nothing": the response to every SYST:ERR? carries the code in FIFO
 * order (overflow: newest replaced by -350) and either exactly the text that entry was pushed with or no
 * text at all.  The heap is an exact-size malloc block under ASan.  Whenever the queue is empty the heap must
 * be completely reusable: a probe push of H-1 characters (on a scratch copy of the state) is stored whole.
 */
#include "scpi/scpi.h"
#include "mcx.h"

#define MAXH 16
#define MAXCAP 4
static scpi_t ctx;
static char ibuf[64];
static scpi_error_t * ering;
static char * heap;
static int H = 4, cap = 2;
static char outbuf[1024]; static size_t outn;

static size_t if_write(scpi_t * c, const char * d, size_t n) { (void) c; if (outn + n < sizeof outbuf) { memcpy(outbuf + outn, d, n); outn += n; } outbuf[outn] = 0; return n; }
static int if_error(scpi_t * c, int_fast16_t e) { (void) c; (void) e; return 0; }
static scpi_result_t if_control(scpi_t * c, scpi_ctrl_name_t ctrl, scpi_reg_val_t val) { (void) c; (void) ctrl; (void) val; return SCPI_RES_OK; }
static scpi_result_t if_flush(scpi_t * c) { (void) c; return SCPI_RES_OK; }
static scpi_interface_t itf = { if_error, if_write, if_control, if_flush, NULL };
static const scpi_command_t cmds[] = {
    {"*CLS", SCPI_CoreCls, 0},
    {"SYSTem:ERRor[:NEXT]?", SCPI_SystemErrorNextQ, 0}, {"SYSTem:ERRor:COUNt?", SCPI_SystemErrorCountQ, 0},
    SCPI_CMD_LIST_END
};

typedef struct { int16_t code; char letter; int8_t len; int8_t q; } ment_t;     /* len < 0: pushed without text; q: 0 letters only, 1 last character is a double quote, 2 first character is */
static ment_t model[MAXCAP];
static int mcount = 0;

enum { OP_PUSH, OP_PUSHX, OP_PUSHQ, OP_PUSHP, OP_PUSHN, OP_QUERY, OP_CLEAR, OP_CLS };
typedef struct { int kind; int len, xlen, q; } op_t;
static op_t ops[64];
static int nops = 0;

static void opname(int op, char * buf, size_t n) {
    const op_t * o = &ops[op];
    switch (o->kind) {
        case OP_PUSH: snprintf(buf, n, "push(text of %d chars)", o->len); break;
        case OP_PUSHX: snprintf(buf, n, "push(text of %d chars, info_len=%d)", o->len, o->xlen); break;
        case OP_PUSHQ: snprintf(buf, n, "push(text of %d chars, the %s one a double quote)", o->len, o->q == 1 ? "last" : o->q == 2 ? "first" : "last one an apostrophe, no"); break;
        case OP_PUSHP: snprintf(buf, n, "push(positive code, text of %d chars)", o->len); break;
        case OP_PUSHN: snprintf(buf, n, "push(no text)"); break;
        case OP_QUERY: snprintf(buf, n, "SYST:ERR?"); break;
        case OP_CLEAR: snprintf(buf, n, "ErrorClear"); break;
        default: snprintf(buf, n, "*CLS"); break;
    }
}

static void build_ops(void) {
    int l;
    int rich = H <= 8 && cap <= 3;      /* the variants of the text (quotes, apostrophe, positive number, lengths beyond / equal to the text) are explored to
                                         * the fix-point on heaps of 2..8 bytes and queues of 1..3 entries (the quick tier); the larger heaps and the capacity-4
                                         * queues of the thorough tier use the plain texts, which keeps their state spaces inside memory */
    nops = 0;
    for (l = 0; l <= H; l++) { ops[nops].kind = OP_PUSH; ops[nops].len = l; nops++; }
    if (H >= 3) { ops[nops].kind = OP_PUSHX; ops[nops].len = 3; ops[nops].xlen = 1; nops++; }
    if (H >= 4) { ops[nops].kind = OP_PUSHX; ops[nops].len = H; ops[nops].xlen = 2; nops++; }
    if (rich && H >= 3) { ops[nops].kind = OP_PUSHX; ops[nops].len = 2; ops[nops].xlen = 2; nops++; }      /* explicit length == text length: source not terminated */
    if (rich && H >= 5) { ops[nops].kind = OP_PUSHX; ops[nops].len = 2; ops[nops].xlen = 4; nops++; }      /* explicit length beyond the end of the text (a buffer size) */
    if (rich && H >= 4) { ops[nops].kind = OP_PUSHP; ops[nops].len = 3; nops++; }                          /* positive (device-specific) error number with a text */
    if (rich && H >= 3) { ops[nops].kind = OP_PUSHQ; ops[nops].len = 2; ops[nops].q = 1; nops++; }          /* quotes: doubled on output, part by part when the text wraps */
    if (rich && H >= 5) { ops[nops].kind = OP_PUSHQ; ops[nops].len = 4; ops[nops].q = 1; nops++; }
    if (rich && H >= 4) { ops[nops].kind = OP_PUSHQ; ops[nops].len = 3; ops[nops].q = 2; nops++; }
    if (rich && H >= 3) { ops[nops].kind = OP_PUSHQ; ops[nops].len = 2; ops[nops].q = 3; nops++; }          /* an apostrophe: not doubled, not followed by anything */
    ops[nops++].kind = OP_PUSHN;
    ops[nops++].kind = OP_QUERY;
    ops[nops++].kind = OP_CLEAR;
    ops[nops++].kind = OP_CLS;
}

/* snapshot: the fields of the context that outlive a message (everything else is reset per message / unit,
 * which is what C09 checks); restored on top of a pristine copy of the context */
typedef struct {
    int16_t fwr, frd, fcount;
    uint32_t hwr, hcount;
    scpi_reg_val_t regs[SCPI_REG_COUNT];
    scpi_error_t ring[MAXCAP];
    char heap[MAXH];
    ment_t model[MAXCAP];
    int8_t mcount;
} snap_t;
static scpi_t ctx0;

typedef struct {
    int16_t fwr, frd, fcount;
    struct { int16_t code; int16_t off; } q[MAXCAP];
    uint32_t hwr, hcount;
    char heap[MAXH];
    ment_t model[MAXCAP];
    int8_t mcount;
} hkey_t;

static void st_save(unsigned char * keyb, unsigned char * snapb) {
    hkey_t * k = (hkey_t *) keyb;
    snap_t * s = (snap_t *) snapb;
    int i;
    memset(k, 0, sizeof *k); memset(s, 0, sizeof *s);
    k->fwr = ctx.error_queue.wr; k->frd = ctx.error_queue.rd; k->fcount = ctx.error_queue.count;
    for (i = 0; i < cap; i++) s->ring[i] = ering[i];
    for (i = 0; i < ctx.error_queue.count && i < cap; i++) {
        int idx = (ctx.error_queue.rd + i) % cap;
        k->q[i].code = ering[idx].error_code;
        k->q[i].off = ering[idx].device_dependent_info ? (int16_t) (ering[idx].device_dependent_info - heap) : -1;
    }
    k->hwr = (uint32_t) ctx.error_info_heap.wr; k->hcount = (uint32_t) ctx.error_info_heap.count;
    memcpy(k->heap, heap, (size_t) H); memcpy(s->heap, heap, (size_t) H);
    memcpy(k->model, model, sizeof (ment_t) * (size_t) mcount); k->mcount = (int8_t) mcount;
    s->fwr = ctx.error_queue.wr; s->frd = ctx.error_queue.rd; s->fcount = ctx.error_queue.count;
    s->hwr = (uint32_t) ctx.error_info_heap.wr; s->hcount = (uint32_t) ctx.error_info_heap.count;
    memcpy(s->regs, ctx.registers, sizeof s->regs);
    memcpy(s->model, model, sizeof model); s->mcount = (int8_t) mcount;
}

static void st_load(const unsigned char * keyb, const unsigned char * snapb) {
    const snap_t * s = (const snap_t *) snapb;
    int i;
    (void) keyb;
    ctx = ctx0;
    ctx.error_queue.wr = s->fwr; ctx.error_queue.rd = s->frd; ctx.error_queue.count = s->fcount;
    ctx.error_info_heap.wr = s->hwr; ctx.error_info_heap.count = s->hcount;
    memcpy(ctx.registers, s->regs, sizeof s->regs);
    for (i = 0; i < cap; i++) ering[i] = s->ring[i];
    memcpy(heap, s->heap, (size_t) H);
    memcpy(model, s->model, sizeof model); mcount = s->mcount;
}

static unsigned long long n_nontrivial = 0, n_queries = 0, n_text_intact = 0, n_text_dropped = 0, n_probes = 0, n_overflow = 0, n_wrapped = 0;

static char free_letter(void) {
    char c;
    int i;
    for (c = 'A'; c < 'A' + MAXCAP + 2; c++) {
        for (i = 0; i < mcount; i++) if (model[i].len >= 0 && model[i].letter == c) break;
        if (i == mcount) return c;
    }
    return 'Z';
}

static void model_push(int16_t code, char letter, int len, int q) {
    if (mcount == cap) { model[cap - 1].code = -350; model[cap - 1].len = -1; model[cap - 1].letter = 0; model[cap - 1].q = 0; n_overflow++; }
    else { model[mcount].code = code; model[mcount].letter = letter; model[mcount].len = (int8_t) len; model[mcount].q = (int8_t) q; mcount++; }
}
static void mk_text(char * t, char letter, int len, int q) {
    memset(t, letter, (size_t) len); t[len] = 0;
    if (q == 1 && len > 0) t[len - 1] = '"';
    if (q == 2 && len > 0) t[0] = '"';
    if (q == 3 && len > 0) t[len - 1] = '\'';
}

static int push_positive = 0;
static void do_push(int len, int xlen, int q) {
    char text[MAXH + 2];
    char letter = free_letter();
    int16_t code = push_positive ? (int16_t) (1000 + len) : (int16_t) -(100 + len + (xlen ? 30 : 0) + (q ? 60 : 0));
    mk_text(text, letter, len, q);
    if (xlen && xlen == len) { char * src = (char *) malloc((size_t) len); memcpy(src, text, (size_t) len); SCPI_ErrorPushEx(&ctx, code, src, (size_t) xlen); free(src); }
    else SCPI_ErrorPushEx(&ctx, code, text, (size_t) xlen);
    model_push(code, letter, (xlen && xlen < len) ? xlen : len, q);
}

static void check_query(void) {
    ment_t m = {0, 0, -1, 0};
    char exp[128], want[MAXH + 2], plain[256];
    const char * desc;
    size_t dl;
    if (mcount > 0) { m = model[0]; memmove(model, model + 1, sizeof (ment_t) * (size_t) (mcount - 1)); mcount--; }
    n_queries++;
    desc = SCPI_ErrorTranslate(m.code);
    dl = (size_t) snprintf(exp, sizeof exp, "%d,\"%s", m.code, desc);
    if (strncmp(outbuf, exp, dl)) { mcx_viol("c20/order", "SYST:ERR? answered [%s], the model FIFO expects it to start with [%s]", mc_es(outbuf), mc_es(exp)); return; }
    if (!strcmp(outbuf + dl, "\"\r\n")) {          /* no text */
        if (m.len > 0) n_text_dropped++;
        return;
    }
    if (m.len < 0) { mcx_viol("c20/text-for-textless-entry", "entry %d was pushed without text but SYST:ERR? answered [%s]", m.code, mc_es(outbuf)); return; }
    mk_text(want, m.letter, m.len, m.q);
    {
        size_t ol = strlen(outbuf + dl);
        const char * got = outbuf + dl + 1;      /* behind ';' */
        size_t gl = ol >= 4 ? ol - 4 : 0, i2, pl = 0;        /* without ; and "\r\n */
        if (outbuf[dl] != ';' || ol < 4 || strcmp(outbuf + dl + 1 + gl, "\"\r\n")) { mcx_viol("c20/malformed-response", "SYST:ERR? answered [%s]", mc_es(outbuf)); return; }
        for (i2 = 0; i2 < gl && pl < sizeof plain - 1; i2++) {       /* undo the doubling of quotes */
            if (got[i2] == '"') { if (i2 + 1 >= gl || got[i2 + 1] != '"') { mcx_viol("c20/malformed-response", "SYST:ERR? answered [%s]: single double quote inside the string", mc_es(outbuf)); return; } i2++; }
            plain[pl++] = got[i2];
        }
        plain[pl] = 0; got = plain; gl = pl;
        if (gl == (size_t) m.len && !memcmp(got, want, gl)) { n_text_intact++; return; }
        if (gl < (size_t) m.len && !memcmp(got, want, gl)) mcx_viol("c20/text-truncated", "entry %d pushed with '%s' reports '%s'", m.code, want, mc_e(got, gl));
        else if (gl > (size_t) m.len && !memcmp(got, want, (size_t) m.len)) mcx_viol("c20/text-merged", "entry %d pushed with '%s' reports '%s'", m.code, want, mc_e(got, gl));
        else mcx_viol("c20/text-foreign", "entry %d pushed with '%s' reports '%s'", m.code, want, mc_e(got, gl));
    }
}

static void check_empty_reusable(void) {
    scpi_t save_ctx; scpi_error_t save_ring[MAXCAP]; char save_heap[MAXH];
    char text[MAXH + 2];
    int i;
    if (mcount != 0 || SCPI_ErrorCount(&ctx) != 0) return;
    n_probes++;
    if (ctx.error_info_heap.count != (size_t) H || ctx.error_info_heap.wr != 0) {
        /* not necessarily wrong by itself - the probe decides */
    }
    /* whether released bytes are wiped is the allocator's business; what counts is that the space can be used again (the probe below) */
    if (H < 2) return;
    save_ctx = ctx; for (i = 0; i < cap; i++) save_ring[i] = ering[i]; memcpy(save_heap, heap, (size_t) H);
    memset(text, 'P', (size_t) (H - 1)); text[H - 1] = 0;
    SCPI_ErrorPushEx(&ctx, -222, text, 0);
    outn = 0; outbuf[0] = 0;
    SCPI_Input(&ctx, "SYST:ERR?\n", 10);
    {
        char exp[128];
        snprintf(exp, sizeof exp, "-222,\"%s;%s\"\r\n", SCPI_ErrorTranslate(-222), text);
        if (strcmp(exp, outbuf)) mcx_viol("c20/heap-not-reusable-when-empty", "queue empty, heap of %d bytes (wr=%d count=%d): a text of %d characters came back as [%s]", H, (int) save_ctx.error_info_heap.wr, (int) save_ctx.error_info_heap.count, H - 1, mc_es(outbuf));
    }
    ctx = save_ctx; for (i = 0; i < cap; i++) ering[i] = save_ring[i]; memcpy(heap, save_heap, (size_t) H);
}

static int apply(int op) {
    const op_t * o = &ops[op];
    int cnt0 = mcount;
    outn = 0; outbuf[0] = 0;
    switch (o->kind) {
        case OP_PUSH: do_push(o->len, 0, 0); break;
        case OP_PUSHX: do_push(o->len, o->xlen, 0); break;
        case OP_PUSHQ: do_push(o->len, 0, o->q); break;
        case OP_PUSHP: push_positive = 1; do_push(o->len, 0, 0); push_positive = 0; break;
        case OP_PUSHN: SCPI_ErrorPush(&ctx, -300); model_push(-300, 0, -1, 0); break;
        case OP_QUERY: SCPI_Input(&ctx, "SYST:ERR?\n", 10); check_query(); break;
        case OP_CLEAR: SCPI_ErrorClear(&ctx); mcount = 0; break;
        default: SCPI_Input(&ctx, "*CLS\n", 5); mcount = 0; break;
    }
    if (SCPI_ErrorCount(&ctx) != mcount) mcx_viol("c20/count", "SCPI_ErrorCount = %d, model = %d", (int) SCPI_ErrorCount(&ctx), mcount);
    if (ctx.error_info_heap.wr > 0 && heap[ctx.error_info_heap.wr - 1] != 0 && 0) n_wrapped++;
    check_empty_reusable();
    if (cnt0 != mcount || o->kind <= OP_PUSHN) n_nontrivial++;
    return 1;
}

int main(int argc, char ** argv) {
    mcx_t m;
    int h, c, k = 0, nrun = 0, maxdepth = 0, fix = 1;
    int hmax, cmax;
    unsigned long long states = 0, transitions = 0;
    mc_init(argc, argv);
    hmax = mc_thorough ? 12 : 8; cmax = mc_thorough ? 4 : 3;
    for (h = hmax; h >= 2; h--) for (c = cmax; c >= 1; c--) {
        if ((unsigned long long) (k++) % mc_nshards != mc_shard) continue;
        H = h; cap = c;
        build_ops();
        ering = (scpi_error_t *) mc_xalloc(sizeof (scpi_error_t) * (size_t) cap);
        memset(ering, 0, sizeof (scpi_error_t) * (size_t) cap);
        heap = (char *) mc_xalloc((size_t) H);                   /* exact size: any access outside the heap traps */
        SCPI_Init(&ctx, cmds, &itf, scpi_units_def, "a", "b", "c", "d", ibuf, sizeof ibuf, ering, (int16_t) cap);
        SCPI_InitHeap(&ctx, heap, (size_t) H);
        ctx0 = ctx;
        mcount = 0; memset(model, 0, sizeof model);
        memset(&m, 0, sizeof m);
        m.key_size = sizeof (hkey_t); m.snap_size = sizeof (snap_t); m.nops = nops;
        m.load = st_load; m.save = st_save; m.apply = apply; m.opname = opname;
        m.max_states = 12000000ULL;          /* about 3.5 GB per explorer process; 16 of them run side by side */
        m.max_depth = (cap >= 4 && H >= 6) ? 9 : 0;      /* the largest spaces: every history of <= 9 operations instead of the fix-point */
        mcx_run(&m);
        states += m.states; transitions += m.transitions; fix &= m.fixpoint; nrun++;
        if (m.depth_reached > maxdepth) maxdepth = m.depth_reached;
        mcx_render_trace(&m, (uint32_t) (m.states - 1), -1);
        mc_sample("heap=%d capacity=%d ops=%d states=%llu transitions=%llu depth=%d fixpoint=%d; deepest history: %s", H, cap, nops, m.states, m.transitions, m.depth_reached, m.fixpoint, mcx_tracebuf);
        { size_t i; for (i = 0; i < m.states; i++) mc_outcome(mc_hash(m.keys + i * sizeof (hkey_t), sizeof (hkey_t), (uint64_t) (H * 8 + cap))); }
        mcx_free(&m);
        free(ering); free(heap);
    }
    /* a large heap (320 bytes) and texts longer than 255 characters: store, report, release, store again; then a text
     * that needs the complete heap (linear scenario; the response is limited to 255 characters, so texts are compared
     * as prefixes) */
    mc_phase(1);
    if (MC_CASE()) {
        static char big[330];
        static const int lens[] = {300, 300, 319, 255, 256, 100, 319};
        int i2, bad = 0;
        mc_case_tag = "large-heap";
        H = 0; cap = 4;
        ering = (scpi_error_t *) mc_xalloc(sizeof (scpi_error_t) * 4); memset(ering, 0, sizeof (scpi_error_t) * 4);
        heap = (char *) mc_xalloc(320);
        SCPI_Init(&ctx, cmds, &itf, scpi_units_def, "a", "b", "c", "d", ibuf, sizeof ibuf, ering, 4);
        SCPI_InitHeap(&ctx, heap, 320);
        for (i2 = 0; i2 < 7 && !bad; i2++) {
            char exp[600]; size_t el;
            memset(big, 'a' + i2, (size_t) lens[i2]); big[lens[i2]] = 0;
            SCPI_ErrorPushEx(&ctx, -222, big, (size_t) lens[i2]);
            outn = 0; outbuf[0] = 0;
            SCPI_Input(&ctx, "SYST:ERR?\n", 10);
            el = (size_t) snprintf(exp, sizeof exp, "-222,\"%s;%s", SCPI_ErrorTranslate(-222), big);
            if (el > 6 + 255) el = 6 + 255;            /* -222," + 255 characters of content */
            if (strncmp(outbuf, exp, el) || strcmp(outbuf + el, "\"\r\n")) { mc_viol("c20/large-heap/text-lost-or-damaged", "heap 320, step %d: text of %d characters pushed on an empty queue came back as [%s]", i2, lens[i2], mc_e(outbuf, outn < 120 ? outn : 120)); bad = 1; }
            if (SCPI_ErrorCount(&ctx) != 0 || ctx.error_info_heap.count != 320) { mc_viol("c20/large-heap/space-not-released", "heap 320, step %d: after the query count=%d free=%d", i2, (int) SCPI_ErrorCount(&ctx), (int) ctx.error_info_heap.count); bad = 1; }
            transitions += 2;
        }
        n_nontrivial++;
        free(ering); free(heap);
    }
    mc_stat("states", states);
    mc_stat("transitions", transitions);
    mc_stat("traces_validated", transitions);
    mc_stat("nontrivial", n_nontrivial);
    mc_stat("queries_compared", n_queries);
    mc_stat("texts_intact", n_text_intact);
    mc_stat("texts_dropped", n_text_dropped);
    mc_stat("overflows", n_overflow);
    mc_stat("empty_heap_probes", n_probes);
    mc_stat("max_depth", (unsigned long long) maxdepth);
    mc_stat("bfs_runs", (unsigned long long) nrun);
    mc_executed += transitions;
    return mc_finish();
}
