/* c15_bounds.c - C15: no formatting or copying API writes past the buffer the caller gave it.
 * Complete finite product: buffer lengths 0..40 (exact-size heap blocks: ASan traps every access outside) x
 *   SCPI_NumberToStr: 9 values x every unit of the exported table that has a base name + no unit, and every
 *                     special-number tag incl. an unknown one
 *   SCPI_FloatToStr, SCPI_DoubleToStr: the same values
 *   SCPI_dtostre: the same values x flags 0..7 x precision 0..20
 *   SCPI_Int32ToStr, SCPI_UInt32ToStrBase, SCPI_Int64ToStr, SCPI_UInt64ToStrBase: boundary values x 4 bases
 *   SCPI_ParamCopyText: quoted texts of length 0..12 with 0..3 doubled quotes at every position, both quote
 *                     characters, buffer lengths 0..16
 * Oracle: nothing outside the buffer is touched; the string is NUL-terminated whenever the result is shorter than
 * the buffer; the returned length equals the length of what was written and is < len (<= len for integers).
 */
#include "ctx.h"
#include "scpi/utils.h"
#include <math.h>

static unsigned long long n_calls = 0, n_nontrivial = 0, n_trunc = 0;
static const double values[] = {0.0, 1.0, -1.5, 10.5, 1e+100, -1.23456789012345e-100, 123456789012345.0, 0.000123, -0.0,
                               -1234567.0, -0.000123456, -3.40282e38, -1.23456e-10, 1.7976931348623157e308, -9.99999e-5, 999999.5, -4.9406564584124654e-324};
#define NVAL 20

static double value_at(int i) {
    if (i < 17) return values[i];
    if (i == 17) return NAN;
    if (i == 18) return INFINITY;
    return -INFINITY;
}

/* common post-condition for functions that return the string length */
static void post(const char * fn, const char * buf, size_t len, size_t ret, int must_terminate, const char * what) {
    char sig[96];
    const char * why = NULL;
    size_t sl;
    if (len == 0) { if (ret != 0) why = "length-for-empty-buffer"; }
    else {
        const char * z = (const char *) memchr(buf, 0, len);
        sl = z ? (size_t) (z - buf) : len;
        if (ret > len) why = "returned-length-exceeds-buffer";
        else if (must_terminate && !z) why = "not-terminated";
        else if (ret != sl) why = "returned-length-differs-from-written";
        if (z && sl + 1 == len) n_trunc++;
    }
    if (why) { snprintf(sig, sizeof sig, "c15/%s/%s", fn, why); mc_viol(sig, "%s with buffer length %d: returned %d, buffer holds [%s]", what, (int) len, (int) ret, mc_e(buf, len)); }
    else n_nontrivial++;
}

static tc_t T;
static char * ct_buf; static size_t ct_len, ct_copy; static scpi_bool_t ct_res; static int ct_ran;
static scpi_result_t h_copy(scpi_t * c) { ct_ran++; ct_res = SCPI_ParamCopyText(c, ct_buf, ct_len, &ct_copy, TRUE); return SCPI_RES_OK; }
static const scpi_command_t cmds[] = { {"TXT", h_copy, 1}, SCPI_CMD_LIST_END };

int main(int argc, char ** argv) {
    size_t len;
    int v, u, f, p;
    char what[256];
    mc_init(argc, argv);
    tc_init(&T, cmds, 64, 8);

    for (len = 0; len <= 40; len++) {
        /* ---- SCPI_NumberToStr ---- */
        for (v = 0; v < NVAL; v++) {
            for (u = -1; scpi_units_def[u < 0 ? 0 : u].name != NULL; u++) {
                scpi_number_t num;
                char * buf;
                size_t r;
                if (u >= 0 && scpi_units_def[u].mult != 1) continue;
                if (!MC_CASE()) continue;
                mc_case_tag = "NumberToStr"; mc_case_i[0] = (long long) len; mc_case_i[1] = v; mc_case_i[2] = u;
                memset(&num, 0, sizeof num);
                num.content.value = value_at(v); num.unit = u < 0 ? SCPI_UNIT_NONE : scpi_units_def[u].unit; num.base = 10;
                buf = (char *) malloc(len); if (len) memset(buf, 0xA5, len);
                r = SCPI_NumberToStr(&T.ctx, scpi_special_numbers_def, &num, buf, len);
                n_calls++;
                snprintf(what, sizeof what, "SCPI_NumberToStr(%g %s)", value_at(v), u < 0 ? "(no unit)" : scpi_units_def[u].name);
                post("SCPI_NumberToStr", buf, len, r, 1, what);
                if (len) mc_outcome(mc_hash(buf, r < len ? r : len, 1));
                free(buf);
            }
        }
        for (v = 0; v <= 10; v++) {     /* special numbers: tags 0..9 and an unknown tag */
            scpi_number_t num; char * buf; size_t r;
            if (!MC_CASE()) continue;
            mc_case_tag = "NumberToStr/special"; mc_case_i[0] = (long long) len; mc_case_i[1] = v;
            memset(&num, 0, sizeof num); num.special = TRUE; num.content.tag = v == 10 ? 99 : v;
            buf = (char *) malloc(len); if (len) memset(buf, 0xA5, len);
            r = SCPI_NumberToStr(&T.ctx, scpi_special_numbers_def, &num, buf, len);
            n_calls++;
            snprintf(what, sizeof what, "SCPI_NumberToStr(special tag %d)", (int) num.content.tag);
            post("SCPI_NumberToStr", buf, len, r, 1, what);
            free(buf);
        }
        /* ---- float / double to string ---- */
        for (v = 0; v < NVAL; v++) {
            char * buf; size_t r;
            if (!MC_CASE()) continue;
            mc_case_tag = "DoubleToStr"; mc_case_i[0] = (long long) len; mc_case_i[1] = v;
            buf = (char *) malloc(len); if (len) memset(buf, 0xA5, len);
            r = SCPI_DoubleToStr(value_at(v), buf, len); n_calls++;
            snprintf(what, sizeof what, "SCPI_DoubleToStr(%g)", value_at(v));
            post("SCPI_DoubleToStr", buf, len, r, 1, what);
            if (len) memset(buf, 0xA5, len);
            r = SCPI_FloatToStr((float) value_at(v), buf, len); n_calls++;
            snprintf(what, sizeof what, "SCPI_FloatToStr(%g)", value_at(v));
            post("SCPI_FloatToStr", buf, len, r, 1, what);
            free(buf);
        }
        /* ---- built-in formatter ---- */
        for (v = 0; v < NVAL; v++) for (f = 0; f < 8; f++) for (p = 0; p <= 20; p++) {
            char * buf, * r;
            if (!MC_CASE()) continue;
            mc_case_tag = "dtostre"; mc_case_i[0] = (long long) len; mc_case_i[1] = v; mc_case_i[2] = f; mc_case_i[3] = p;
            buf = (char *) malloc(len); if (len) memset(buf, 0xA5, len);
            r = SCPI_dtostre(value_at(v), buf, len, (unsigned char) p, (unsigned char) f); n_calls++;
            if (r != buf) mc_viol("c15/SCPI_dtostre/return-pointer", "SCPI_dtostre(%g, len %d, prec %d, flags %d) did not return the buffer", value_at(v), (int) len, p, f);
            else if (len && !memchr(buf, 0, len)) mc_viol("c15/SCPI_dtostre/not-terminated", "SCPI_dtostre(%g, len %d, prec %d, flags %d): buffer [%s]", value_at(v), (int) len, p, f, mc_e(buf, len));
            else n_nontrivial++;
            if (len) mc_outcome(mc_hash(buf, strnlen(buf, len), 2));
            free(buf);
        }
        /* ---- integers ---- */
        {
            static const uint64_t iv[] = {0, 1, 9, 10, 255, 0x7fffffffULL, 0x80000000ULL, 0xffffffffULL, 0x7fffffffffffffffULL, 0x8000000000000000ULL, 0xffffffffffffffffULL};
            static const int bs[] = {2, 8, 10, 16};
            int k, b;
            for (k = 0; k < 11; k++) for (b = 0; b < 4; b++) {
                char * buf; size_t r;
                if (!MC_CASE()) continue;
                mc_case_tag = "inttostr"; mc_case_i[0] = (long long) len; mc_case_i[1] = k; mc_case_i[2] = bs[b];
                buf = (char *) malloc(len); if (len) memset(buf, 0xA5, len);
                r = SCPI_UInt32ToStrBase((uint32_t) iv[k], buf, len, (int8_t) bs[b]); n_calls++; snprintf(what, sizeof what, "SCPI_UInt32ToStrBase(0x%x, base %d)", (unsigned) iv[k], bs[b]); post("SCPI_UInt32ToStrBase", buf, len, r, 0, what);
                if (len) memset(buf, 0xA5, len);
                r = SCPI_UInt64ToStrBase(iv[k], buf, len, (int8_t) bs[b]); n_calls++; snprintf(what, sizeof what, "SCPI_UInt64ToStrBase(0x%llx, base %d)", (unsigned long long) iv[k], bs[b]); post("SCPI_UInt64ToStrBase", buf, len, r, 0, what);
                if (len) memset(buf, 0xA5, len);
                r = SCPI_Int32ToStr((int32_t) (uint32_t) iv[k], buf, len); n_calls++; snprintf(what, sizeof what, "SCPI_Int32ToStr(%d)", (int32_t) (uint32_t) iv[k]); post("SCPI_Int32ToStr", buf, len, r, 0, what);
                if (len) memset(buf, 0xA5, len);
                r = SCPI_Int64ToStr((int64_t) iv[k], buf, len); n_calls++; snprintf(what, sizeof what, "SCPI_Int64ToStr(%lld)", (long long) iv[k]); post("SCPI_Int64ToStr", buf, len, r, 0, what);
                free(buf);
            }
        }
    }
    /* ---- quoted text copy ---- */
    {
        int L, q, a, b, c, qc;
        for (qc = 0; qc < 2; qc++) for (L = 0; L <= 12; L++) for (a = -1; a < L; a++) for (b = a; b < L; b++) for (c = b; c < L; c++) {
            char un[16], msg[64];
            int ul = 0, ml = 0, i;
            char quote = qc ? '\'' : '"';
            if (a < 0 && (b >= 0 || c >= 0) && !(b < 0 && c < 0)) { if (b != a || c != b) continue; }
            if ((a >= 0) && (b == a && c != b)) continue;           /* canonical: positions a <= b <= c, duplicates mean fewer quotes */
            for (i = 0; i < L; i++) un[ul++] = (i == a || i == b || i == c) ? quote : (char) ('a' + i % 5);
            ml = sprintf(msg, "TXT %c", quote);
            for (i = 0; i < ul; i++) { msg[ml++] = un[i]; if (un[i] == quote) msg[ml++] = quote; }
            msg[ml++] = quote; msg[ml++] = '\n';
            for (len = 0; len <= 16; len++) {
                const char * why = NULL;
                if (!MC_CASE()) continue;
                mc_case_tag = "ParamCopyText"; mc_case_s[0] = (const unsigned char *) msg; mc_case_n[0] = (size_t) ml; mc_case_i[0] = (long long) len;
                tc_reinit(&T, cmds); tr_reset();
                ct_len = len; ct_buf = (char *) malloc(len); if (len) memset(ct_buf, 0xA5, len); ct_copy = 999; ct_ran = 0;
                SCPI_Input(&T.ctx, msg, ml);
                n_calls++;
                if (ct_ran != 1 || !ct_res) why = "text-not-accepted";
                else if (ct_copy > len) why = "copy-length-exceeds-buffer";
                else if (ct_copy > (size_t) ul || memcmp(ct_buf, un, ct_copy)) why = "copied-text-wrong";
                else if (ct_copy < len && ct_buf[ct_copy] != 0) why = "not-terminated";
                else if ((size_t) (ml - 7) < len && ct_copy != (size_t) ul) why = "text-cut-although-it-fits";
                if (why) { char sig[96]; snprintf(sig, sizeof sig, "c15/SCPI_ParamCopyText/%s", why); mc_viol(sig, "message [%s] buffer length %d: result %d copy_len %d buffer [%s]", mc_e(msg, (size_t) ml), (int) len, (int) ct_res, (int) ct_copy, mc_e(ct_buf, len)); }
                else { n_nontrivial++; mc_outcome(mc_hash(ct_buf, ct_copy, 3)); }
                free(ct_buf);
            }
            (void) q;
        }
    }
    if (mc_shard == 0) {
        mc_sample("SCPI_NumberToStr(10.5 OHM) into buffers of 0..40 bytes");
        mc_sample("SCPI_dtostre(-1.23456789012345e-100, buf, len, prec 0..20, flags 0..7) for len 0..40");
        mc_sample("SCPI_ParamCopyText of TXT \"ab\"\"c\"\"\" into buffers of 0..16 bytes");
    }
    mc_stat("impl_calls", n_calls);
    mc_stat("nontrivial", n_nontrivial);
    mc_stat("results_filling_the_buffer", n_trunc);
    tc_free(&T);
    return mc_finish();
}
