/* c07_roundtrip.c - C07: every value the library formats as a result decodes back to the same value.
 * Round trip through the real code both ways: a query handler emits the value with SCPI_Result*, the captured
 * response data is sent back as the parameter of a second command whose handler decodes it with the matching
 * SCPI_Param*; the decoded value must equal the original bit for bit (floats/doubles: within half a unit of the
 * last of the 6 / 15 emitted digits; one unit in the build with the library's own formatter).
 * Sanitised build, through SCPI_Input: all 2^8 and 2^16 values of the 8/16-bit types in bases 2/8/10/16, structured
 * 32- and 64-bit sets, booleans, all strings of length <= 5 (thorough 6) over {a " ' ; NL , blank DEL} and longer
 * strings, blocks of every length 0..1100 x 8 byte patterns, floats/doubles over a structured set x every decimal
 * exponent, ASCII arrays of 0..5 elements.
 * Unsanitised build, token level (format -> lex -> SCPI_ParamTo*): one value per 64-value stratum of the 32-bit
 * space (quick) / ALL 2^32 values (thorough) x {Int32, UInt32 in bases 2, 8, 10, 16}.
 */
#include "ctx.h"
#include "lexer_private.h"
#include "parser_private.h"
#include "utils_private.h"
#include <math.h>


static unsigned long long n_trips = 0, n_nontrivial = 0;

#ifndef MC_FLAVOR_FAST
enum { T_I8, T_U8, T_I16, T_U16, T_I32, T_U32, T_I64, T_U64, T_BOOL, T_TEXT, T_BLOCK, T_FLOAT, T_DOUBLE, T_AI32, T_AU32, T_AI64, T_AU64, T_AF, T_AD, T_BLOCK_INT, T_SBLOCK_INT };
static int job, j_base;
static uint64_t j_u; static const char * j_text; static const void * j_blk; static size_t j_len;
static float j_f; static double j_d;
static uint64_t j_arr[8]; static size_t j_n;
/* decoded */
static int d_ok; static uint64_t d_u; static char d_text[1400]; static size_t d_len; static float d_f; static double d_d; static uint64_t d_arr[8]; static size_t d_n;

static scpi_result_t h_x(scpi_t * c) {
    size_t i;
    switch (job) {
        case T_I8: SCPI_ResultInt8(c, (int8_t) j_u); break;
        case T_U8: SCPI_ResultUInt8Base(c, (uint8_t) j_u, j_base); break;
        case T_I16: SCPI_ResultInt16(c, (int16_t) j_u); break;
        case T_U16: SCPI_ResultUInt16Base(c, (uint16_t) j_u, (int8_t) j_base); break;
        case T_I32: SCPI_ResultInt32(c, (int32_t) j_u); break;
        case T_U32: SCPI_ResultUInt32Base(c, (uint32_t) j_u, (int8_t) j_base); break;
        case T_I64: SCPI_ResultInt64(c, (int64_t) j_u); break;
        case T_U64: SCPI_ResultUInt64Base(c, j_u, (int8_t) j_base); break;
        case T_BOOL: SCPI_ResultBool(c, j_u ? TRUE : FALSE); break;
        case T_TEXT: SCPI_ResultText(c, j_text); break;
        case T_BLOCK: SCPI_ResultArbitraryBlock(c, j_blk, j_len); break;
        case T_BLOCK_INT: SCPI_ResultArbitraryBlock(c, j_blk, j_len); SCPI_ResultInt32(c, -1000); SCPI_ResultText(c, "t"); break;
        case T_SBLOCK_INT: {    /* the same block streamed: header, then the data in pieces of j_base bytes */
            size_t off = 0, step = j_base > 0 ? (size_t) j_base : 1;
            SCPI_ResultArbitraryBlockHeader(c, j_len);
            if (j_len == 0) SCPI_ResultArbitraryBlockData(c, j_blk, 0);      /* an empty block is completed by its (empty) data call, as in C17 */
            while (off < j_len) { size_t nn = j_len - off < step ? j_len - off : step; SCPI_ResultArbitraryBlockData(c, j_blk + off, nn); off += nn; }
            SCPI_ResultInt32(c, -1000); SCPI_ResultText(c, "t"); break;
        }
        case T_FLOAT: SCPI_ResultFloat(c, j_f); break;
        case T_DOUBLE: SCPI_ResultDouble(c, j_d); break;
        case T_AI32: { int32_t a[8]; for (i = 0; i < j_n; i++) a[i] = (int32_t) j_arr[i]; SCPI_ResultArrayInt32(c, a, j_n, SCPI_FORMAT_ASCII); break; }
        case T_AU32: { uint32_t a[8]; for (i = 0; i < j_n; i++) a[i] = (uint32_t) j_arr[i]; SCPI_ResultArrayUInt32(c, a, j_n, SCPI_FORMAT_ASCII); break; }
        case T_AI64: { int64_t a[8]; for (i = 0; i < j_n; i++) a[i] = (int64_t) j_arr[i]; SCPI_ResultArrayInt64(c, a, j_n, SCPI_FORMAT_ASCII); break; }
        case T_AU64: { uint64_t a[8]; for (i = 0; i < j_n; i++) a[i] = j_arr[i]; SCPI_ResultArrayUInt64(c, a, j_n, SCPI_FORMAT_ASCII); break; }
        case T_AF: { float a[8]; for (i = 0; i < j_n; i++) { uint32_t b = (uint32_t) j_arr[i]; memcpy(&a[i], &b, 4); } SCPI_ResultArrayFloat(c, a, j_n, SCPI_FORMAT_ASCII); break; }
        default: { double a[8]; for (i = 0; i < j_n; i++) memcpy(&a[i], &j_arr[i], 8); SCPI_ResultArrayDouble(c, a, j_n, SCPI_FORMAT_ASCII); break; }
    }
    return SCPI_RES_OK;
}

static int via_to = 0;      /* 1: decode with SCPI_Parameter + the SCPI_ParamToXxx twin of the reader */
static scpi_result_t h_y(scpi_t * c) {
    size_t i;
    d_ok = 0;
    if (via_to) {
        scpi_parameter_t p;
        memset(&p, 0, sizeof p);
        if (!SCPI_Parameter(c, &p, TRUE)) return SCPI_RES_OK;
        switch (job) {
            case T_I8: case T_I16: case T_I32: { int32_t v = 0; d_ok = SCPI_ParamToInt32(c, &p, &v); d_u = (uint64_t) (int64_t) v; break; }
            case T_U8: case T_U16: case T_U32: { uint32_t v = 0; d_ok = SCPI_ParamToUInt32(c, &p, &v); d_u = v; break; }
            case T_I64: { int64_t v = 0; d_ok = SCPI_ParamToInt64(c, &p, &v); d_u = (uint64_t) v; break; }
            case T_U64: { uint64_t v = 0; d_ok = SCPI_ParamToUInt64(c, &p, &v); d_u = v; break; }
            case T_FLOAT: d_ok = SCPI_ParamToFloat(c, &p, &d_f); break;
            default: d_ok = SCPI_ParamToDouble(c, &p, &d_d); break;
        }
        return SCPI_RES_OK;
    }
    switch (job) {
        case T_I8: case T_I16: case T_I32: { int32_t v = 0; d_ok = SCPI_ParamInt32(c, &v, TRUE); d_u = (uint64_t) (int64_t) v; break; }
        case T_U8: case T_U16: case T_U32: { uint32_t v = 0; d_ok = SCPI_ParamUInt32(c, &v, TRUE); d_u = v; break; }
        case T_I64: { int64_t v = 0; d_ok = SCPI_ParamInt64(c, &v, TRUE); d_u = (uint64_t) v; break; }
        case T_U64: { uint64_t v = 0; d_ok = SCPI_ParamUInt64(c, &v, TRUE); d_u = v; break; }
        case T_BOOL: { scpi_bool_t v = 0; d_ok = SCPI_ParamBool(c, &v, TRUE); d_u = v ? 1 : 0; break; }
        case T_TEXT: d_ok = SCPI_ParamCopyText(c, d_text, sizeof d_text, &d_len, TRUE); break;
        case T_BLOCK: { const char * p = NULL; size_t l = 0; d_ok = SCPI_ParamArbitraryBlock(c, &p, &l, TRUE); if (d_ok) { d_len = l < sizeof d_text ? l : sizeof d_text; memcpy(d_text, p, d_len); d_len = l; } break; }
        case T_BLOCK_INT: case T_SBLOCK_INT: { const char * p = NULL; size_t l = 0; int32_t v = 0; char t[8]; size_t tl = 0; d_ok = SCPI_ParamArbitraryBlock(c, &p, &l, TRUE) && SCPI_ParamInt32(c, &v, TRUE) && SCPI_ParamCopyText(c, t, sizeof t, &tl, TRUE); if (d_ok) { d_len = l; memcpy(d_text, p, l < sizeof d_text ? l : sizeof d_text); d_u = (uint64_t) (int64_t) v; if (tl != 1 || t[0] != 't') d_ok = 0; } break; }
        case T_FLOAT: d_ok = SCPI_ParamFloat(c, &d_f, TRUE); break;
        case T_DOUBLE: d_ok = SCPI_ParamDouble(c, &d_d, TRUE); break;
        case T_AI32: { int32_t a[8]; d_ok = SCPI_ParamArrayInt32(c, a, 8, &d_n, SCPI_FORMAT_ASCII, j_n ? TRUE : FALSE); for (i = 0; i < d_n && i < 8; i++) d_arr[i] = (uint64_t) (int64_t) a[i]; break; }
        case T_AU32: { uint32_t a[8]; d_ok = SCPI_ParamArrayUInt32(c, a, 8, &d_n, SCPI_FORMAT_ASCII, j_n ? TRUE : FALSE); for (i = 0; i < d_n && i < 8; i++) d_arr[i] = a[i]; break; }
        case T_AI64: { int64_t a[8]; d_ok = SCPI_ParamArrayInt64(c, a, 8, &d_n, SCPI_FORMAT_ASCII, j_n ? TRUE : FALSE); for (i = 0; i < d_n && i < 8; i++) d_arr[i] = (uint64_t) a[i]; break; }
        case T_AU64: { uint64_t a[8]; d_ok = SCPI_ParamArrayUInt64(c, a, 8, &d_n, SCPI_FORMAT_ASCII, j_n ? TRUE : FALSE); for (i = 0; i < d_n && i < 8; i++) d_arr[i] = a[i]; break; }
        case T_AF: { float a[8]; d_ok = SCPI_ParamArrayFloat(c, a, 8, &d_n, SCPI_FORMAT_ASCII, j_n ? TRUE : FALSE); for (i = 0; i < d_n && i < 8; i++) { uint32_t b; memcpy(&b, &a[i], 4); d_arr[i] = b; } break; }
        default: { double a[8]; d_ok = SCPI_ParamArrayDouble(c, a, 8, &d_n, SCPI_FORMAT_ASCII, j_n ? TRUE : FALSE); for (i = 0; i < d_n && i < 8; i++) memcpy(&d_arr[i], &a[i], 8); break; }
    }
    return SCPI_RES_OK;
}
static const scpi_command_t cmds[] = { {"X?", h_x, 1}, {"Y", h_y, 2}, SCPI_CMD_LIST_END };
static tc_t T;
static char resp[2400]; static size_t respn;

/* emit through X?, send the response data back through Y; returns 0 and reports on failure */
static int trip(const char * what) {
    static char msg[2600];
    size_t ml;
    tr_reset();
    SCPI_Input(&T.ctx, "X?\n", 3);
    n_trips++;
    if (OUTN < 2 || memcmp(OUT + OUTN - 2, "\r\n", 2) || tc_nerr) { mc_viol("c07/emit", "%s: emitting raised %d errors, output [%s]", what, tc_nerr, mc_e(OUT, OUTN < 200 ? OUTN : 200)); return 0; }
    respn = OUTN - 2; memcpy(resp, OUT, respn);
    memcpy(msg, "Y ", 2); memcpy(msg + 2, resp, respn); ml = respn + 2; msg[ml++] = '\n';
    tr_reset();
    d_ok = -1;
    SCPI_Input(&T.ctx, msg, (int) ml);
    if (d_ok != 1 || tc_nerr) {
        char sig[64];
        snprintf(sig, sizeof sig, "c07/response-not-accepted/%s", what);
        mc_viol(sig, "%s: response data [%s] sent back as a parameter: decoder result %d, errors %d (first %d)", what, mc_e(resp, respn < 200 ? respn : 200), d_ok, tc_nerr, tc_nerr ? tc_errs[0] : 0);
        if (T.ctx.buffer.position) tc_reinit(&T, cmds);
        return 0;
    }
    if (job <= T_U64 || job == T_FLOAT || job == T_DOUBLE) {
        /* the same response decoded by the other public route: SCPI_Parameter + SCPI_ParamToXxx must deliver the same value */
        uint64_t u1 = d_u; float f1 = d_f; double d1 = d_d;
        int same;
        via_to = 1; tr_reset(); d_ok = -1;
        SCPI_Input(&T.ctx, msg, (int) ml);
        via_to = 0;
        same = job == T_FLOAT ? !memcmp(&f1, &d_f, sizeof f1) : job == T_DOUBLE ? !memcmp(&d1, &d_d, sizeof d1) : u1 == d_u;
        if (d_ok != 1 || tc_nerr || !same) {
            char sig[96];
            snprintf(sig, sizeof sig, "c07/SCPI_ParamTo-differs/%s", what);
            mc_viol(sig, "%s: response data [%s]: SCPI_Parameter + SCPI_ParamToXxx result %d, errors %d, value 0x%llx / %.17g; the SCPI_ParamXxx reader delivered 0x%llx / %.17g", what, mc_e(resp, respn < 200 ? respn : 200), d_ok, tc_nerr, (unsigned long long) d_u, job == T_FLOAT ? (double) d_f : d_d, (unsigned long long) u1, job == T_FLOAT ? (double) f1 : d1);
            if (T.ctx.buffer.position) tc_reinit(&T, cmds);
            return 0;
        }
        d_u = u1; d_f = f1; d_d = d1;
    }
    return 1;
}

static void trip_int(int type, uint64_t v, int base) {
    static const char * nm[] = {"int8", "uint8", "int16", "uint16", "int32", "uint32", "int64", "uint64"};
    uint64_t want;
    job = type; j_u = v; j_base = base;
    mc_case_tag = nm[type]; mc_case_i[0] = (long long) v; mc_case_i[1] = base;
    if (!trip(nm[type])) return;
    switch (type) {
        case T_I8: want = (uint64_t) (int64_t) (int8_t) v; break; case T_U8: want = (uint8_t) v; break;
        case T_I16: want = (uint64_t) (int64_t) (int16_t) v; break; case T_U16: want = (uint16_t) v; break;
        case T_I32: want = (uint64_t) (int64_t) (int32_t) v; break; case T_U32: want = (uint32_t) v; break;
        default: want = v; break;
    }
    if (d_u != want) { char sig[64]; snprintf(sig, sizeof sig, "c07/value/%s", nm[type]); mc_viol(sig, "%s 0x%llx base %d -> [%s] -> 0x%llx", nm[type], (unsigned long long) want, base, mc_e(resp, respn), (unsigned long long) d_u); return; }
    n_nontrivial++;
    mc_outcome(mc_hash(resp, respn, (uint64_t) type));
}

static void trip_text(const char * s, size_t n) {
    job = T_TEXT; j_text = s;
    mc_case_tag = "text"; mc_case_s[0] = (const unsigned char *) s; mc_case_n[0] = n;
    if (!trip("text")) return;
    if (d_len != n || memcmp(d_text, s, n)) { mc_viol("c07/value/text", "text [%s] -> [%s] -> [%s]", mc_e(s, n < 100 ? n : 100), mc_e(resp, respn < 200 ? respn : 200), mc_e(d_text, d_len < 100 ? d_len : 100)); return; }
    n_nontrivial++;
    mc_outcome(mc_hash(resp, respn, 77));
}

static double ulp_bound(double v, int digits) {
    char e[64];
    int x;
    snprintf(e, sizeof e, "%.*e", digits - 1, v);
    x = atoi(strchr(e, 'e') + 1);
    return 0.5 * pow(10.0, (double) (x - digits + 1));
}

static void trip_double(double v) {
    double tol;
    job = T_DOUBLE; j_d = v;
    mc_case_tag = "double"; memcpy(&mc_case_i[0], &v, 8);
    if (!trip("double")) return;
    tol = ulp_bound(v, 15) * (1 + 1e-9) + fabs(v) * 1.2e-16;      /* + half a binary64 ulp: the decoder rounds the text to the nearest double */
#ifdef MC_CFG_DTOSTRE
    tol *= 2;
#endif
    if (isinf(d_d) && fabs(v) > 1.797693134862315e308) {
        /* the 15-digit text of the very largest doubles rounds up beyond the largest finite double */
        mc_viol("c07/value/double/15-digit-text-rounds-beyond-largest-finite", "double %.17g -> [%s] -> %g", v, mc_e(resp, respn), d_d);
        return;
    }
#ifdef MC_CFG_DTOSTRE
    if (!(fabs(d_d - v) <= tol) && fabs(d_d - v) <= 8 * ulp_bound(v, 15) && (fabs(v) >= 1e60 || fabs(v) < 1e-19)) {      /* only where the pinned tree shows it (C16 profile): decimal exponent <= -20 or >= 60 */
        /* the library's own formatter generates the 15th digit inexactly (up to ~3 units off): known finding of C16 */
        mc_viol("c07/value/double/builtin-formatter-15th-digit-inexact", "double %.17g -> [%s] -> %.17g (deviation %.3g, half a unit is %.3g)", v, mc_e(resp, respn), d_d, fabs(d_d - v), ulp_bound(v, 15));
        return;
    }
#endif
    if (!(fabs(d_d - v) <= tol)) { mc_viol("c07/value/double", "double %.17g -> [%s] -> %.17g (allowed deviation %.3g)", v, mc_e(resp, respn), d_d, tol); return; }
    n_nontrivial++;
    mc_outcome(mc_hash(resp, respn, 78));
}
static void trip_float(float v) {
    double tol;
    job = T_FLOAT; j_f = v;
    mc_case_tag = "float"; { double dv = v; memcpy(&mc_case_i[0], &dv, 8); }
    if (!trip("float")) return;
    tol = ulp_bound((double) v, 6) * (1 + 1e-6) + fabs((double) v) * 6e-8;       /* + half a binary32 ulp of the decoder */
#ifdef MC_CFG_DTOSTRE
    tol *= 2;
#endif
    if (!(fabs((double) d_f - (double) v) <= tol)) { mc_viol("c07/value/float", "float %.9g -> [%s] -> %.9g (allowed deviation %.3g)", (double) v, mc_e(resp, respn), (double) d_f, tol); return; }
    n_nontrivial++;
}

static void trip_array(int type, size_t n, const uint64_t * vals) {
    size_t i;
    job = type; j_n = n; for (i = 0; i < n; i++) j_arr[i] = vals[i];
    mc_case_tag = "array"; mc_case_i[0] = type; mc_case_i[1] = (long long) n;
    if (n == 0) {       /* nothing is emitted for an empty ASCII array: the response is empty and so is the parameter list */
        tr_reset(); SCPI_Input(&T.ctx, "X?\n", 3); n_trips++;
        if (OUTN != 2) mc_viol("c07/emit/empty-array", "empty ASCII array wrote [%s]", mc_e(OUT, OUTN));
        return;
    }
    if (!trip("array")) return;
    if (d_n != n) { mc_viol("c07/value/array-count", "array type %d of %d elements -> [%s] -> %d elements", type, (int) n, mc_e(resp, respn), (int) d_n); return; }
    for (i = 0; i < n; i++) {
        int bad;
        if (type == T_AF) { float a, b; uint32_t x = (uint32_t) vals[i], y = (uint32_t) d_arr[i]; memcpy(&a, &x, 4); memcpy(&b, &y, 4); bad = !(fabs((double) a - (double) b) <= 2 * ulp_bound((double) a, 6) + fabs((double) a) * 6e-8); }
        else if (type == T_AD) { double a, b; memcpy(&a, &vals[i], 8); memcpy(&b, &d_arr[i], 8); bad = !(fabs(a - b) <= 2 * ulp_bound(a, 15) + fabs(a) * 1.2e-16); }
        else if (type == T_AI32) bad = (int32_t) d_arr[i] != (int32_t) vals[i];
        else if (type == T_AU32) bad = (uint32_t) d_arr[i] != (uint32_t) vals[i];
        else bad = d_arr[i] != vals[i];
        if (bad) { mc_viol("c07/value/array-element", "array type %d element %d: 0x%llx -> [%s] -> 0x%llx", type, (int) i, (unsigned long long) vals[i], mc_e(resp, respn), (unsigned long long) d_arr[i]); return; }
    }
    n_nontrivial++;
}
#endif

int main(int argc, char ** argv) {
    mc_init(argc, argv);
#ifdef MC_FLAVOR_FAST
    {
        uint64_t lo = (0x100000000ULL / mc_nshards) * mc_shard, hi = mc_shard + 1 == mc_nshards ? 0x100000000ULL : (0x100000000ULL / mc_nshards) * (mc_shard + 1), v;
        uint64_t step = mc_thorough ? 1 : 64;
        static const int bases[5] = {10, 2, 8, 10, 16};
        unsigned long long bad = 0;
        static char buf[64];
        for (v = lo; v < hi; v += step) {
            uint32_t x = (uint32_t) (mc_thorough ? v : (v | ((v >> 6) * 2654435761u & 0x3f)));
            int k;
            for (k = 0; k < 5; k++) {
                int sg = k == 0, o = 0;
                size_t n;
                lex_state_t st; scpi_token_t tok;
                uint32_t back = ~x;
                scpi_bool_t ok;
                if (bases[k] == 2) { buf[0] = '#'; buf[1] = 'B'; o = 2; } else if (bases[k] == 8) { buf[0] = '#'; buf[1] = 'Q'; o = 2; } else if (bases[k] == 16) { buf[0] = '#'; buf[1] = 'H'; o = 2; }
                n = UInt32ToStrBaseSign(x, buf + o, 40, (int8_t) bases[k], sg ? TRUE : FALSE);
                buf[o + n] = '\n'; buf[o + n + 1] = 0;
                st.buffer = buf; st.pos = buf; st.len = (int) (o + n);
                scpiParser_parseProgramData(&st, &tok);
                if (sg) ok = SCPI_ParamToInt32(NULL, &tok, (int32_t *) &back); else ok = SCPI_ParamToUInt32(NULL, &tok, &back);
                n_trips++;
                if (!ok || back != x || st.pos != buf + o + n) { if (bad++ < 3) { mc_idx = v; mc_viol("c07/value/int32-token-level", "0x%x %s base %d -> [%s] -> ok=%d 0x%x", x, sg ? "signed" : "unsigned", bases[k], mc_e(buf, o + n), (int) ok, back); } }
            }
            if ((v & 0xfffff) == 0 && mc_deadline_hit()) break;
            mc_executed++;
            mc_idx = v - lo + 1;          /* progress indicator for the watchdog */
        }
        n_nontrivial = mc_executed; mc_idx = hi - lo;
        if (mc_shard == 0) mc_sample("format -> lex -> SCPI_ParamToInt32/UInt32 for %s 32-bit value, signed decimal and unsigned in bases 2, 8, 10, 16", mc_thorough ? "every" : "one of every 64-value stratum of the");
        mc_outcome(1); mc_outcome(2);
    }
#else
    {
        static const int ub[4] = {2, 8, 10, 16};
        uint64_t v; int b, s, L, i;
        tc_init(&T, cmds, 2600, 8);
        /* 8 and 16 bit: every value */
        for (v = 0; v < 65536; v++) {
            if (!MC_CASE()) continue;
            trip_int(T_I16, v, 10);
            for (b = 0; b < 4; b++) trip_int(T_U16, v, ub[b]);
            if (v < 256) { trip_int(T_I8, v, 10); for (b = 0; b < 4; b++) trip_int(T_U8, v, ub[b]); }
        }
        /* 32 / 64 bit: structured */
        {
            int mmax = mc_thorough ? 4096 : 256;
            uint64_t m;
            for (m = 0; m < (uint64_t) mmax; m++) for (s = 0; s < 64; s++) {
                int c;
                if (!MC_CASE()) continue;
                for (c = 0; c < 2; c++) {
                    uint64_t x = c ? ~(m << s) : (m << s);
                    trip_int(T_I64, x, 10);
                    for (b = 0; b < 4; b++) trip_int(T_U64, x, ub[b]);
                    if (s < 32) { trip_int(T_I32, x & 0xffffffffu, 10); for (b = 0; b < 4; b++) trip_int(T_U32, x & 0xffffffffu, ub[b]); }
                }
            }
            for (b = 0; b < 4; b++) { uint64_t p; for (p = 1;; p *= (uint64_t) ub[b]) { int d; if (MC_CASE()) for (d = -2; d <= 2; d++) { int bb; trip_int(T_I64, p + (uint64_t) d, 10); trip_int(T_I64, 0 - (p + (uint64_t) d), 10); for (bb = 0; bb < 4; bb++) { trip_int(T_U64, p + (uint64_t) d, ub[bb]); trip_int(T_U32, (p + (uint64_t) d) & 0xffffffffu, ub[bb]); } trip_int(T_I32, (p + (uint64_t) d) & 0xffffffffu, 10); } if (p > ~0ULL / (uint64_t) ub[b]) break; } }
        }
        if (MC_CASE()) { job = T_BOOL; j_u = 0; if (trip("bool") && d_u != 0) mc_viol("c07/value/bool", "FALSE -> [%s] -> %d", mc_e(resp, respn), (int) d_u); j_u = 1; if (trip("bool") && d_u != 1) mc_viol("c07/value/bool", "TRUE -> [%s] -> %d", mc_e(resp, respn), (int) d_u); n_nontrivial += 2; }
        /* text */
        {
            static const char alpha[] = "a\"';\n, \x7f";
            char sbuf[16]; int idx[8];
            int maxL = mc_thorough ? 6 : 5;
            for (L = 0; L <= maxL; L++) {
                for (i = 0; i < L; i++) { idx[i] = 0; sbuf[i] = alpha[0]; }
                for (;;) {
                    sbuf[L] = 0;
                    if (MC_CASE()) trip_text(sbuf, (size_t) L);
                    for (i = L - 1; i >= 0; i--) { if (++idx[i] < 8) { sbuf[i] = alpha[idx[i]]; break; } idx[i] = 0; sbuf[i] = alpha[0]; }
                    if (i < 0) break;
                }
            }
            for (L = 7; L <= 300; L++) for (b = 0; b < 4; b++) {
                static char lt[400];
                if (!MC_CASE()) continue;
                for (i = 0; i < L; i++) lt[i] = (char) (b == 0 ? '"' : b == 1 ? (i % 2 ? '"' : 'x') : b == 2 ? (i % 5 == 4 ? '\n' : 'a' + i % 26) : (i == L - 1 ? '"' : '\''));
                lt[L] = 0;
                trip_text(lt, (size_t) L);
            }
        }
        /* blocks */
        for (L = 0; L <= 1100; L++) for (b = 0; b < 8; b++) {
            static unsigned char blk[1200];
            if (!MC_CASE()) continue;
            /* patterns 6 and 7 repeat with no power-of-two period: a byte taken from the wrong offset of the data shows */
            for (i = 0; i < L; i++) blk[i] = (unsigned char) (b == 0 ? i : b == 1 ? '\n' : b == 2 ? ';' : b == 3 ? '#' : b == 4 ? 0 : b == 5 ? 0xFF : b == 6 ? i % 251 : ((unsigned) i * 2654435761u) >> 13);
            job = T_BLOCK; j_blk = blk; j_len = (size_t) L;
            mc_case_tag = "block"; mc_case_i[0] = L; mc_case_i[1] = b;
            if (!trip("block")) continue;
            if (d_len != (size_t) L || memcmp(d_text, blk, (size_t) L)) { mc_viol("c07/value/block", "block of %d bytes pattern %d came back with %d bytes", L, b, (int) d_len); continue; }
            n_nontrivial++;
        }
        /* a block followed by further results in the same response (the separators depend on the block being counted) */
        for (L = 0; L <= 40; L++) for (b = 0; b < 3; b++) {
            static unsigned char blk2[64];
            if (!MC_CASE()) continue;
            for (i = 0; i < L; i++) blk2[i] = (unsigned char) (b == 0 ? ',' : b == 1 ? '"' : i);
            job = T_BLOCK_INT; j_blk = blk2; j_len = (size_t) L;
            mc_case_tag = "block+int"; mc_case_i[0] = L; mc_case_i[1] = b;
            if (!trip("block-then-items")) continue;
            if (d_len != (size_t) L || memcmp(d_text, blk2, (size_t) L) || (int64_t) d_u != -1000) { mc_viol("c07/value/block-then-items", "block of %d bytes, -1000, \"t\" -> [%s] -> block of %d bytes, %lld", L, mc_e(resp, respn), (int) d_len, (long long) (int64_t) d_u); continue; }
            n_nontrivial++;
        }
        /* the same with the block streamed (header + data in pieces of 1, 3, 7, 64 bytes) */
        { int k; for (L = 0; L <= 40; L++) for (b = 0; b < 3; b++) for (k = 0; k < 4; k++) {
            static unsigned char blk3[64];
            static const int steps[4] = {1, 3, 7, 64};
            if (!MC_CASE()) continue;
            for (i = 0; i < L; i++) blk3[i] = (unsigned char) (b == 0 ? ',' : b == 1 ? '"' : i);
            job = T_SBLOCK_INT; j_blk = blk3; j_len = (size_t) L; j_base = steps[k];
            mc_case_tag = "streamed-block+int"; mc_case_i[0] = L; mc_case_i[1] = b; mc_case_i[2] = steps[k];
            if (!trip("streamed-block-then-items")) continue;
            if (d_len != (size_t) L || memcmp(d_text, blk3, (size_t) L) || (int64_t) d_u != -1000) { mc_viol("c07/value/streamed-block-then-items", "block of %d bytes streamed in pieces of %d, -1000, \"t\" -> [%s] -> block of %d bytes, %lld", L, steps[k], mc_e(resp, respn), (int) d_len, (long long) (int64_t) d_u); continue; }
            n_nontrivial++;
        } }
        /* floating point: mantissas d.ddd x every decimal exponent, powers of two, boundaries */
        {
            static const char * mant[] = {"1", "1.5", "9.99999", "9.999995", "1.00000000000001", "9.99999999999999", "1.23456789012345", "4.5", "1.0000005", "5.55555555555555", "1.999999", "7.00000000000007", "9.999999999999995", "2.5000001"};
            int e, k, sg;
            for (k = 0; k < 14; k++) for (e = -323; e <= 308; e++) for (sg = 0; sg < 2; sg++) {
                char lit[64]; double dv; float fv;
                if (!MC_CASE()) continue;
                snprintf(lit, sizeof lit, "%s%se%d", sg ? "-" : "", mant[k], e);
                dv = strtod(lit, NULL);
                if (isfinite(dv)) trip_double(dv);
                if (e >= -45 && e <= 38) { fv = strtof(lit, NULL); if (isfinite(fv)) trip_float(fv); }
            }
            for (e = -1074; e <= 1023; e++) { if (!MC_CASE()) continue; trip_double(ldexp(1.0, e)); trip_double(nextafter(ldexp(1.0, e), 0)); if (e >= -149 && e <= 127) { trip_float(ldexpf(1.0f, e)); trip_float(nextafterf(ldexpf(1.0f, e), 0)); } }
            if (MC_CASE()) { trip_double(0.0); trip_float(0.0f); trip_double(1.7976931348623157e308); trip_float(3.40282347e38f); trip_double(4.9406564584124654e-324); }
        }
        /* ASCII arrays of 0..5 elements */
        {
            int t; size_t n;
            static const uint64_t iv[6] = {0, 1, 0x7fffffffULL, 0xffffffff80000000ULL, 0xffffffffffffffffULL, 0x8000000000000000ULL};
            for (t = T_AI32; t <= T_AD; t++) for (n = 0; n <= 5; n++) for (s = 0; s < 6; s++) {
                uint64_t vals[8];
                if (!MC_CASE()) continue;
                for (i = 0; i < (int) n; i++) {
                    vals[i] = iv[(i + s) % 6];
                    if (t == T_AF) { float f = (float) ((i + 1) * 1.25e-3 * (s + 1)) * (i % 2 ? -1 : 1); uint32_t bb; memcpy(&bb, &f, 4); vals[i] = bb; }
                    if (t == T_AD) { double d = (i + 1) * 1.000000000001e17 / (s + 1) * (i % 2 ? -1 : 1); memcpy(&vals[i], &d, 8); }
                }
                trip_array(t, n, vals);
            }
        }
        /* long ASCII arrays: 254..1000 elements (item and parameter accounting beyond 255) */
        {
            static const int counts[] = {254, 255, 256, 257, 300, 512, 513, 1000};
            static tc_t TB;
            static int32_t big_in[1024], big_out[1024];
            int ci;
            tc_init(&TB, cmds, 8192, 8);
            for (ci = 0; ci < 8; ci++) {
                char * msg; int n = counts[ci], k; size_t ml;
                if (!MC_CASE()) continue;
                mc_case_tag = "long-array"; mc_case_i[0] = n;
                for (k = 0; k < n; k++) big_in[k] = (k % 2 ? -k : k) * 3;
                /* emit directly (no handler needed): a query context is emulated by a fresh output counter */
                tr_reset(); TB.ctx.output_count = 0; TB.ctx.first_output = TRUE;
                SCPI_ResultArrayInt32(&TB.ctx, big_in, (size_t) n, SCPI_FORMAT_ASCII);
                n_trips++;
                msg = (char *) malloc(OUTN + 8);
                memcpy(msg, "Y ", 2); memcpy(msg + 2, OUT, OUTN); ml = OUTN + 2; msg[ml++] = '\n';
                {   /* decode through a handler of its own */
                    lex_state_t * ls = &TB.ctx.param_list.lex_state; size_t got = 0; scpi_bool_t ok;
                    tr_reset();
                    ls->buffer = msg + 2; ls->pos = msg + 2; ls->len = (int) (ml - 3); TB.ctx.input_count = 0; TB.ctx.cmd_error = FALSE;
                    ok = SCPI_ParamArrayInt32(&TB.ctx, big_out, 1024, &got, SCPI_FORMAT_ASCII, TRUE);
                    if (!ok || tc_nerr || got != (size_t) n || memcmp(big_in, big_out, sizeof (int32_t) * (size_t) n))
                        mc_viol("c07/value/long-array", "ASCII int32 array of %d elements: %d bytes emitted, decoder ok=%d elements=%d errors=%d (first %d)", n, (int) (ml - 3), (int) ok, (int) got, tc_nerr, tc_nerr ? tc_errs[0] : 0);
                    else n_nontrivial++;
                }
                free(msg);
            }
            tc_free(&TB);
        }
        if (mc_shard == 0) {
            mc_sample("uint16 0xBEEF in base 2 -> #B1011111011101111 -> SCPI_ParamUInt32 -> 0xBEEF");
            mc_sample("text [a\"';\\n] -> \"a\"\"';\\n\" -> SCPI_ParamCopyText -> same text");
            mc_sample("block of 1100 bytes of ';' -> #41100;;;... -> SCPI_ParamArbitraryBlock -> same bytes");
        }
        tc_free(&T);
    }
#endif
    mc_stat("impl_calls", n_trips * 2);
    mc_stat("round_trips", n_trips);
    mc_stat("nontrivial", n_nontrivial);
    return mc_finish();
}
