/* c09_isolation.c - C09: messages and units are isolated: nothing but status and errors carries over.
 * Bounded-exhaustive, differential: message set M = every single unit and every ordered pair of units over a
 * 49-unit alphabet (compound paths, headers whose table entry has no callback, common commands, parameters of every kind incl. malformed lists, queries
 * that succeed / fail midway / leave a block unfinished / write block data without a header, invalid and
 * incomplete units), each NL-terminated.  For every ordered pair (A, B) in M x M (quick: A in M, B in singles
 * and a third of the pairs) the complete trace of B executed after A on the same context (handler invocations
 * with effective header and decoded parameters, output bytes, flushes, error callbacks, SCPI_Input result) must
 * equal the trace of B on a fresh context.  B never queries status or the error queue (the statement excepts
 * those channels); the error queue is large enough (64) not to overflow.
 */
#include "msgtab.h"

static const char * units[] = {
    "AAAA:Bb", "AAAA:Bb?", "Ee", ":AAAA:Dd:Ee", "Bb", "AAAA:Cc3", "*XY", "*XY?", "ZZ", "AAAA:ZZ",
    "I2 1,2", "I2 1", "I2 1,2,3", "I2 x,1", "I2 1,", "OPT", "OPT 5", "CH ON", "CH XYZ", "NUM 1 V", "NUM 1 ZZ", "TXT \"a;b\"", "TXT? 'x'",
    "Q1?", "Q2?", "Q0?", "Q0E?", "Q1E?", "QPART?", "QTAIL?", "QB?", "Q1P? 5", "C0", "CE", "@", "", "AAAA:", "BLK #13a;b", "BLK #13a\nb", "ARR 1,2,x", "EXPR (1:2,5)", "AAAA:Gg:Ii", "AAAA:Gg", "I2 12,34", "DBL? 2.5", "OPT 7", "RESV", "RESV 1", "RESV? 1",
};
#define NU ((int) (sizeof units / sizeof units[0]))
#define NM (NU + NU * NU)

static int make_msg(int m, char * buf) {
    int n;
    if (m < NU) n = sprintf(buf, "%s\n", units[m]);
    else { int a = (m - NU) / NU, b = (m - NU) % NU; n = sprintf(buf, "%s;%s\n", units[a], units[b]); }
    /* "BLK #13a\nb" contains an embedded NL inside block data: sprintf handled it as a plain byte */
    return n;
}

typedef struct { char * tr; size_t trn; char * out; size_t outn; int res; } ref_t;
static ref_t * fresh;
static tc_t T;
static int heap_cfg_quick = 0;
static unsigned long long n_pairs = 0, n_nontrivial = 0;

static int run_b(const char * b, int bl) {
    int r;
    tr_reset();
    r = (int) SCPI_Input(&T.ctx, b, bl);
    tr_printf("R%d;", r);
    return r;
}

int main(int argc, char ** argv) {
    int a, b;
    char ma[128], mb[128];
    mc_init(argc, argv);
    mc_tail_poison = 1;
#if USE_DEVICE_DEPENDENT_ERROR_INFORMATION && !USE_MEMORY_ALLOCATION_FREE
    heap_cfg_quick = !mc_thorough;       /* quick, static-heap build: single-unit pairs and the heap histories */
#endif
    tc_init(&T, mt_cmds, 256, 64);
    fresh = (ref_t *) calloc((size_t) NM, sizeof (ref_t));
    for (b = 0; b < NM; b++) {
        int bl = make_msg(b, mb);
        tc_reinit(&T, mt_cmds);
        run_b(mb, bl);
        if (T.ctx.buffer.position != 0) { printf("VIOL idx=0 sig=c09/harness-unterminated :: message [%s] leaves %d bytes pending\n", mc_e(mb, (size_t) bl), (int) T.ctx.buffer.position); }
        fresh[b].tr = (char *) malloc(TRN + 1); memcpy(fresh[b].tr, TR, TRN + 1); fresh[b].trn = TRN;
        fresh[b].out = (char *) malloc(OUTN + 1); memcpy(fresh[b].out, OUT, OUTN + 1); fresh[b].outn = OUTN;
    }
    for (a = 0; a < NM; a++) {
        int al = make_msg(a, ma);
        for (b = 0; b < NM; b++) {
            int bl;
            if (heap_cfg_quick && (a >= NU || b >= NU)) continue;
            if (!MC_CASE()) continue;
            bl = make_msg(b, mb);
            mc_case_tag = "pair"; mc_case_s[0] = (const unsigned char *) ma; mc_case_n[0] = (size_t) al; mc_case_s[1] = (const unsigned char *) mb; mc_case_n[1] = (size_t) bl;
            tc_reinit(&T, mt_cmds);
            tr_reset();
            SCPI_Input(&T.ctx, ma, al);
            if (T.ctx.buffer.position != 0) { mc_viol("c09/harness-unterminated", "A [%s] leaves %d bytes pending", mc_e(ma, (size_t) al), (int) T.ctx.buffer.position); continue; }
            if (TRN) n_nontrivial++;
            run_b(mb, bl);
            n_pairs++;
            if (TRN != fresh[b].trn || memcmp(TR, fresh[b].tr, TRN) || OUTN != fresh[b].outn || memcmp(OUT, fresh[b].out, OUTN)) {
                const char * why = "c09/trace-differs";
                if (OUTN != fresh[b].outn || memcmp(OUT, fresh[b].out, OUTN)) {
                    why = "c09/output-differs";
                    if (OUTN && OUT[0] == ';' && (fresh[b].outn == 0 || fresh[b].out[0] != ';')) why = "c09/separator-state-leaks";
                }
                else if (strstr(fresh[b].tr, "E-310") && !strstr(TR, "E-310")) why = "c09/block-accounting-leaks";
                else if (strstr(TR, "H:") && strstr(fresh[b].tr, "H:")) {
                    const char * x = strstr(TR, "("), * y = strstr(fresh[b].tr, "(");
                    if (x && y && strncmp(x, y, 8)) why = "c09/header-path-leaks";
                }
                mc_viol(why, "A [%s] then B [%s]: trace [%s] output [%s]; B on a fresh context: trace [%s] output [%s]", mc_e(ma, (size_t) al), mc_e(mb, (size_t) bl), mc_es(TR), mc_e(OUT, OUTN), mc_es(fresh[b].tr), mc_e(fresh[b].out, fresh[b].outn));
            }
            mc_outcome(mc_hash(TR, TRN, (uint64_t) a * 7919u));
        }
    }
#if USE_DEVICE_DEPENDENT_ERROR_INFORMATION && !USE_MEMORY_ALLOCATION_FREE
    {   /* static-heap build: A = every history of <= 5 messages that store, read and clear error texts in a 16-byte heap (texts
         * wrap around its end); then the queue is emptied and the registers are cleared through the API; B raises errors whose
         * texts need the whole heap.  B's trace INCLUDING the texts of the errors it queued must equal B on a fresh context:
         * the allocator's bookkeeping is not one of the channels the statement excepts. */
        static const char * hm[] = {"AAAAAA\n", "BBBBB\n", "SYST:ERR?\n", "*CLS\n", "CCCCCC;DD\n"};
        static const char * hb[] = {"ABCDEFGHIJKLMNO\n", "XYZ\n", "ABCDEFG;HIJKLM\n"};
        static tc_t H;
        char fr[3][600], info[300];
        int k, i, idx[6], bi, KH = mc_thorough ? 6 : 5;
        tc_heap_len = 16; tc_init(&H, mt_cmds, 256, 2);        /* a queue of 2: the histories overflow it */
        for (bi = 0; bi < 3; bi++) {
            size_t o = 0;
            tc_reinit(&H, mt_cmds); tr_reset();
            SCPI_Input(&H.ctx, hb[bi], (int) strlen(hb[bi]));
            o = (size_t) snprintf(fr[bi], sizeof fr[bi], "%s|", TR);
            while (SCPI_ErrorCount(&H.ctx) > 0 && o + 320 < sizeof fr[bi]) { int c = tc_pop(&H, info, sizeof info); o += (size_t) snprintf(fr[bi] + o, sizeof fr[bi] - o, "%d:%s|", c, info); }
        }
        for (k = 1; k <= KH; k++) {
            for (i = 0; i < k; i++) idx[i] = 0;
            for (;;) {
                for (bi = 0; bi < 3; bi++) {
                    char got[600], hist[128]; size_t o = 0, ho = 0;
                    if (!MC_CASE()) continue;
                    tc_reinit(&H, mt_cmds);
                    for (i = 0; i < k; i++) { SCPI_Input(&H.ctx, hm[idx[i]], (int) strlen(hm[idx[i]])); ho += (size_t) snprintf(hist + ho, sizeof hist - ho, "%s", hm[idx[i]]); }
                    mc_case_tag = "heap-history"; mc_case_s[0] = (const unsigned char *) hist; mc_case_n[0] = ho; mc_case_s[1] = (const unsigned char *) hb[bi]; mc_case_n[1] = strlen(hb[bi]);
                    while (SCPI_ErrorCount(&H.ctx) > 0) tc_pop(&H, info, sizeof info);          /* read everything back */
                    SCPI_Input(&H.ctx, "*CLS\n", 5);
                    tr_reset();
                    SCPI_Input(&H.ctx, hb[bi], (int) strlen(hb[bi]));
                    o = (size_t) snprintf(got, sizeof got, "%s|", TR);
                    while (SCPI_ErrorCount(&H.ctx) > 0 && o + 320 < sizeof got) { int c = tc_pop(&H, info, sizeof info); o += (size_t) snprintf(got + o, sizeof got - o, "%d:%s|", c, info); }
                    n_pairs++; n_nontrivial++;
                    if (strcmp(got, fr[bi])) mc_viol("c09/error-text-storage-leaks", "history [%s], queue read back and *CLS, then B [%s]: trace and queued errors [%s]; B on a fresh context [%s]", mc_e(hist, ho), mc_es(hb[bi]), mc_es(got), mc_es(fr[bi]));
                }
                for (i = k - 1; i >= 0; i--) { if (++idx[i] < 5) break; idx[i] = 0; }
                if (i < 0) break;
            }
        }
        tc_free(&H);
    }
#endif
    /* units of one message: for "a;b" where a has no header path to pass on, the handler and error events must be
     * those of "a" alone followed by those of "b" alone (response framing and SCPI_Input result aside) */
    for (a = 0; a < NU; a++) for (b = 0; b < NU; b++) {
        char ev[3][2048];
        int which, m[3];
        if (strchr(units[a], ':') && units[a][0] != '*') continue;
        if (!strcmp(units[a], "@")) continue;          /* whether the units behind an invalid character are still executed is nobody's promise (C06 accepts both) */
        if (!MC_CASE()) continue;
        m[0] = NU + a * NU + b; m[1] = a; m[2] = b;
        for (which = 0; which < 3; which++) {     /* filter: drop F@..; and R.; events */
            const char * t = fresh[m[which]].tr;
            size_t o = 0;
            while (*t) {
                const char * e = strchr(t, ';');
                size_t l = e ? (size_t) (e - t) + 1 : strlen(t);
                if (!(t[0] == 'F' && t[1] == '@') && !(t[0] == 'R' && (t[1] == '0' || t[1] == '1') && t[2] == ';')) { memcpy(ev[which] + o, t, l); o += l; }
                t += l;
            }
            ev[which][o] = 0;
        }
        n_pairs++;
        {
            size_t l1 = strlen(ev[1]);
            if (strncmp(ev[0], ev[1], l1) || strcmp(ev[0] + l1, ev[2]))
                mc_viol("c09/unit-state-leaks-into-next-unit", "message [%s;%s]: events [%s]; units alone: [%s] + [%s]", mc_es(units[a]), mc_es(units[b]), mc_es(ev[0]), mc_es(ev[1]), mc_es(ev[2]));
        }
    }
    /* histories with an input-buffer overrun: [unterminated fragment], a chunk that does not fit (-363, buffer dropped), then B */
    {
        static const char * frags[] = {"", "I2 1", "Q1?;AAAA:", "TXT \"ab", "BLK #19abc"};
        static char big[300];
        int f;
        memset(big, 'A', sizeof big);
        for (f = 0; f < 5; f++) for (b = 0; b < NM; b++) {
            int bl;
            if (b >= NU && (b % 5) != 0) continue;
            if (!MC_CASE()) continue;
            bl = make_msg(b, mb);
            mc_case_tag = "overrun-history"; mc_case_s[0] = (const unsigned char *) frags[f]; mc_case_n[0] = strlen(frags[f]); mc_case_s[1] = (const unsigned char *) mb; mc_case_n[1] = (size_t) bl;
            tc_reinit(&T, mt_cmds); tr_reset();
            if (frags[f][0]) SCPI_Input(&T.ctx, frags[f], (int) strlen(frags[f]));
            SCPI_Input(&T.ctx, big, (int) sizeof big);
            if (T.ctx.buffer.position != 0) { mc_viol("c09/input-not-dropped-after-overrun", "fragment [%s] + %d bytes into a 256 byte buffer: %d bytes still buffered", mc_es(frags[f]), (int) sizeof big, (int) T.ctx.buffer.position); continue; }
            run_b(mb, bl);
            n_pairs++; n_nontrivial++;
            if (TRN != fresh[b].trn || memcmp(TR, fresh[b].tr, TRN) || OUTN != fresh[b].outn || memcmp(OUT, fresh[b].out, OUTN))
                mc_viol("c09/state-leaks-after-input-overrun", "fragment [%s], overrun, then B [%s]: trace [%s] output [%s]; B on a fresh context: trace [%s] output [%s]", mc_es(frags[f]), mc_e(mb, (size_t) bl), mc_es(TR), mc_e(OUT, OUTN), mc_es(fresh[b].tr), mc_e(fresh[b].out, fresh[b].outn));
        }
    }
    /* A terminated by a bare CR and by CR LF (single units, among them the ones with an invalid character), then B */
    {
        static const char * term[2] = {"\r", "\r\n"};
        int ti;
        for (ti = 0; ti < 2; ti++) for (a = 0; a < NU; a++) for (b = 0; b < NU; b++) {
            int al, bl;
            if (strchr(units[a], '\n')) continue;
            if (!MC_CASE()) continue;
            al = sprintf(ma, "%s%s", units[a], term[ti]);
            bl = make_msg(b, mb);
            mc_case_tag = "cr-terminated-pair"; mc_case_s[0] = (const unsigned char *) ma; mc_case_n[0] = (size_t) al; mc_case_s[1] = (const unsigned char *) mb; mc_case_n[1] = (size_t) bl;
            tc_reinit(&T, mt_cmds); tr_reset();
            SCPI_Input(&T.ctx, ma, al);
            if (T.ctx.buffer.position != 0) { mc_viol("c09/terminated-message-left-in-buffer", "A [%s] is terminated but %d bytes stay buffered", mc_e(ma, (size_t) al), (int) T.ctx.buffer.position); continue; }
            run_b(mb, bl);
            n_pairs++;
            if (TRN != fresh[b].trn || memcmp(TR, fresh[b].tr, TRN) || OUTN != fresh[b].outn || memcmp(OUT, fresh[b].out, OUTN))
                mc_viol("c09/trace-differs", "A [%s] then B [%s]: trace [%s] output [%s]; B on a fresh context: trace [%s] output [%s]", mc_e(ma, (size_t) al), mc_e(mb, (size_t) bl), mc_es(TR), mc_e(OUT, OUTN), mc_es(fresh[b].tr), mc_e(fresh[b].out, fresh[b].outn));
        }
    }
    /* a LONG message A (255 .. 70000 bytes of valid units) in an input buffer that holds it, delivered whole and in two chunks, then B:
     * positions and lengths beyond 8 and 16 bits must not leave anything of A behind */
    {
        static const int alen[] = {255, 256, 257, 300, 511, 512, 513, 700, 32767, 32768, 65535, 65536, 70000};
        static tc_t L;
        int ai, deliv;
        tc_init(&L, mt_cmds, 70016, 64);
        for (ai = 0; ai < 13; ai++) for (deliv = 0; deliv < 2; deliv++) for (b = 0; b < NU; b++) {
            int n = alen[ai], o = 0, bl;
            char * am;
            if (!MC_CASE()) continue;
            bl = make_msg(b, mb);
            am = (char *) malloc((size_t) n + 1);
            while (o + 7 <= n - 1) { memcpy(am + o, "I2 1,2;", 7); o += 7; }
            while (o < n - 1) am[o++] = ' ';
            am[o++] = '\n';
            mc_case_tag = "long-message-history"; mc_case_i[0] = n; mc_case_i[1] = deliv; mc_case_s[1] = (const unsigned char *) mb; mc_case_n[1] = (size_t) bl;
            tc_reinit(&L, mt_cmds); tr_reset();
            if (deliv == 0) SCPI_Input(&L.ctx, am, n); else { SCPI_Input(&L.ctx, am, n / 2); SCPI_Input(&L.ctx, am + n / 2, n - n / 2); }
            free(am);
            if (L.ctx.buffer.position != 0) { mc_viol("c09/long-message-left-in-buffer", "A of %d bytes (terminated): %d bytes still buffered", n, (int) L.ctx.buffer.position); continue; }
            tr_reset();
            { int r = (int) SCPI_Input(&L.ctx, mb, bl); tr_printf("R%d;", r); }
            n_pairs++; n_nontrivial++;
            if (TRN != fresh[b].trn || memcmp(TR, fresh[b].tr, TRN) || OUTN != fresh[b].outn || memcmp(OUT, fresh[b].out, OUTN))
                mc_viol("c09/state-leaks-after-long-message", "A of %d bytes delivered in %d call(s), then B [%s]: trace [%s] output [%s]; B on a fresh context: trace [%s] output [%s]", n, deliv + 1, mc_e(mb, (size_t) bl), mc_es(TR), mc_e(OUT, OUTN), mc_es(fresh[b].tr), mc_e(fresh[b].out, fresh[b].outn));
        }
        tc_free(&L);
    }
    /* A and the unterminated B in ONE input call, B executed by a zero-length flush, against B alone + flush (single-unit B) */
    for (a = 0; a < NM; a++) {
        int al = make_msg(a, ma);
        if (a >= NU && (a % 7) != 0) continue;
        for (b = 0; b < NU; b++) {
            static char ref_tr[4096], ref_out[1024]; size_t ref_trn, ref_outn;
            char both[300];
            int bl = (int) strlen(units[b]);
            if (!MC_CASE()) continue;
            if (bl == 0 || strchr(units[b], '\n')) continue;
            mc_case_tag = "flush-pair"; mc_case_s[0] = (const unsigned char *) ma; mc_case_n[0] = (size_t) al; mc_case_s[1] = (const unsigned char *) units[b]; mc_case_n[1] = (size_t) bl;
            tc_reinit(&T, mt_cmds); tr_reset();
            SCPI_Input(&T.ctx, units[b], bl);
            if (TRN) continue;                          /* B executes without terminator?  not the case under test */
            tr_reset(); SCPI_Input(&T.ctx, NULL, 0);
            ref_trn = TRN; memcpy(ref_tr, TR, TRN + 1); ref_outn = OUTN; memcpy(ref_out, OUT, OUTN + 1);
            memcpy(both, ma, (size_t) al); memcpy(both + al, units[b], (size_t) bl);
            tc_reinit(&T, mt_cmds); tr_reset();
            SCPI_Input(&T.ctx, both, al + bl);
            if (T.ctx.buffer.position != (size_t) bl) continue;      /* A swallowed part of B (open block/string): not comparable */
            tr_reset(); SCPI_Input(&T.ctx, NULL, 0);
            n_pairs++;
            if (TRN != ref_trn || memcmp(TR, ref_tr, TRN) || OUTN != ref_outn || memcmp(OUT, ref_out, OUTN))
                mc_viol("c09/stale-input-leaks-into-flushed-message", "A [%s] and unterminated B [%s] in one call, then a zero-length call: trace [%s] output [%s]; B alone + zero-length call: trace [%s] output [%s]", mc_e(ma, (size_t) al), mc_es(units[b]), mc_es(TR), mc_e(OUT, OUTN), mc_es(ref_tr), mc_e(ref_out, ref_outn));
        }
    }
    if (mc_thorough) {       /* two-message histories: A1, A2 single units on separate lines, then B */
        int a2;
        for (a = 0; a < NU; a++) for (a2 = 0; a2 < NU; a2++) {
            int al = sprintf(ma, "%s\n%s\n", units[a], units[a2]);
            for (b = 0; b < NM; b++) {
                int bl;
                if (!MC_CASE()) continue;
                bl = make_msg(b, mb);
                mc_case_tag = "triple"; mc_case_s[0] = (const unsigned char *) ma; mc_case_n[0] = (size_t) al; mc_case_s[1] = (const unsigned char *) mb; mc_case_n[1] = (size_t) bl;
                tc_reinit(&T, mt_cmds);
                tr_reset();
                SCPI_Input(&T.ctx, ma, al);
                if (T.ctx.buffer.position != 0) continue;
                run_b(mb, bl);
                n_pairs++; n_nontrivial++;
                if (TRN != fresh[b].trn || memcmp(TR, fresh[b].tr, TRN) || OUTN != fresh[b].outn || memcmp(OUT, fresh[b].out, OUTN))
                    mc_viol("c09/trace-differs/two-message-history", "A [%s] then B [%s]: trace [%s] output [%s]; B on a fresh context: trace [%s] output [%s]", mc_e(ma, (size_t) al), mc_e(mb, (size_t) bl), mc_es(TR), mc_e(OUT, OUTN), mc_es(fresh[b].tr), mc_e(fresh[b].out, fresh[b].outn));
            }
        }
    }
    if (mc_shard == 0) {
        mc_sample("A [Q1?;Q0E?\\n] then B [Q1?\\n]: B must answer 7\\r\\n exactly as on a fresh context (no leading ';')");
        mc_sample("A [QPART?\\n] (block of 10 announced, 3 sent) then B [QTAIL?\\n]: data without header must be refused with -310");
        mc_sample("A [AAAA:Bb;I2 1,\\n] then B [Ee;OPT 5\\n]");
    }
    mc_stat("max_messages", (unsigned long long) NM);
    mc_stat("impl_calls", n_pairs * 2);
    mc_stat("nontrivial", n_nontrivial);
    tc_free(&T);
    return mc_finish();
}
