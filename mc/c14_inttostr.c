/* c14_inttostr.c - C14: integer-to-text conversion is exact for every value, base and buffer size.
 * Sanitised build: structured value set (m * 2^s and complements, powers of every base +-2, decimal digit
 * boundaries) x {signed, unsigned} x bases {2, 8, 10, 16} and {0, 1, 3, 7, 36, -1} (which mean 10) with a roomy
 * buffer, then a boundary set x every buffer length 0..70 (and 12 lengths from 255 to 65537) in an exact-size heap block.
 * Unsanitised (-O2) build: quick = one value per 64-value stratum of the 32-bit space (2^26 values), thorough =
 * ALL 2^32 values, x {signed, unsigned} x bases {2, 8, 10, 16}; 64-bit: structured set.
 * Oracle: independent formatter (repeated division), truncation rule: the first min(len, n) characters, NUL iff
 * n < len, return value = number of characters produced, nothing outside the buffer (ASan / canaries).
 */
#include "scpi/scpi.h"
#include "scpi/utils.h"
#include "utils_private.h"
#include "mc.h"


static int ref_fmt(uint64_t val, int bits, int base, int sign, char * out) {
    char tmp[80];
    int n = 0, o = 0, neg = 0;
    uint64_t u = bits == 32 ? (uint32_t) val : val;
    if (base != 2 && base != 8 && base != 16) base = 10;
    if (sign && base == 10) {
        if (bits == 32 && (int32_t) (uint32_t) val < 0) { neg = 1; u = (uint64_t) (-(int64_t) (int32_t) (uint32_t) val); }
        if (bits == 64 && (int64_t) val < 0) { neg = 1; u = (uint64_t) 0 - val; }
    }
    do { tmp[n++] = "0123456789ABCDEF"[u % (unsigned) base]; u /= (unsigned) base; } while (u);
    if (neg) out[o++] = '-';
    while (n) out[o++] = tmp[--n];
    out[o] = 0;
    return o;
}

static unsigned long long n_calls = 0, n_nontrivial = 0, n_trunc = 0;
static const int bases_all[10] = {2, 8, 10, 16, 0, 1, 3, 7, 36, -1};

/* one call into a buffer of exactly `len` bytes, guarded by canaries; `big` = reuse static buffer (fast path) */
static int check_one(uint64_t val, int bits, int base, int sign, size_t len, int api) {
    char exp[80];
    int n = ref_fmt(val, bits, (api == 1 && sign) ? (base = 10) : base, sign, exp), want = n < (int) len ? n : (int) len;
    size_t ret;
    char * area = (char *) malloc(len + 16), * buf = area + 8;
    const char * why = NULL;
    /* with ASan the block is len+16: canaries inside; an additional exact-size run is done by check_exact() */
    memset(area, 0x5A, len + 16);
    if (bits == 32) {
        if (api == 0) ret = UInt32ToStrBaseSign((uint32_t) val, buf, len, (int8_t) base, sign ? TRUE : FALSE);
        else if (sign) ret = SCPI_Int32ToStr((int32_t) (uint32_t) val, buf, len);
        else ret = SCPI_UInt32ToStrBase((uint32_t) val, buf, len, (int8_t) base);
    } else {
        if (api == 0) ret = UInt64ToStrBaseSign(val, buf, len, (int8_t) base, sign ? TRUE : FALSE);
        else if (sign) ret = SCPI_Int64ToStr((int64_t) val, buf, len);
        else ret = SCPI_UInt64ToStrBase(val, buf, len, (int8_t) base);
    }
    n_calls++;
    if ((int) ret != want) why = n <= (int) len ? "return-value" : "return-value-when-truncated";
    else if (memcmp(buf, exp, (size_t) want)) why = n <= (int) len ? "digits" : "digits-when-truncated";
    else if (n < (int) len && buf[n] != 0) why = "missing-nul";
    else {
        size_t i;
        for (i = 0; i < 8; i++) if ((unsigned char) area[i] != 0x5A) why = "write-before-buffer";
        for (i = 0; i < 8; i++) if ((unsigned char) buf[len + i] != 0x5A) why = "write-behind-buffer";
        if (n >= (int) len) { /* no room for NUL: nothing else to check */ }
        else for (i = (size_t) n + 1; i < len; i++) if ((unsigned char) buf[i] != 0x5A) { /* writing further inside the buffer is allowed */ break; }
    }
    if (why) {
        char sig[96];
        snprintf(sig, sizeof sig, "c14/%s/%dbit", why, bits);
        mc_viol(sig, "value 0x%llx (%d bit) base %d %s buffer %d (api %d): returned %d text [%s], expected %d [%.*s]%s", (unsigned long long) val, bits, base, sign ? "signed" : "unsigned", (int) len, api, (int) ret, mc_e(buf, (size_t) (ret < len ? ret : len)), want, want, exp, n < (int) len ? " + NUL" : "");
    }
    free(area);
    if (n > (int) len) n_trunc++;
    return why == NULL;
}

/* the same call into an exact-size heap block: ASan traps any access outside */
static void check_exact(uint64_t val, int bits, int base, int sign, size_t len) {
    char * buf = (char *) malloc(len);
    if (bits == 32) UInt32ToStrBaseSign((uint32_t) val, buf, len, (int8_t) base, sign ? TRUE : FALSE);
    else UInt64ToStrBaseSign(val, buf, len, (int8_t) base, sign ? TRUE : FALSE);
    n_calls++;
    free(buf);
}

static uint64_t vals[400000];
static size_t nvals;
static void add(uint64_t v) { if (nvals < sizeof vals / sizeof vals[0]) vals[nvals++] = v; }

static void build_values(int bits, int mmax, int fine) {
    int s, b;
    uint64_t m, mask = bits == 32 ? 0xffffffffULL : ~0ULL, p;
    nvals = 0;
    for (m = 0; m < (uint64_t) mmax; m++) for (s = 0; s < bits; s += (fine ? 1 : 3)) { uint64_t v = (m << s) & mask; add(v); add(~v & mask); }
    for (b = 0; b < 4; b++) {
        uint64_t base = (uint64_t) bases_all[b];
        for (p = 1;; p *= base) { int d; for (d = -2; d <= 2; d++) { add((p + (uint64_t) d) & mask); add((0 - (p + (uint64_t) d)) & mask); } if (p > mask / base) break; }
    }
    add(mask); add(mask >> 1); add((mask >> 1) + 1); add(0); add(1);
}

int main(int argc, char ** argv) {
    size_t i;
    int b, sg, bits;
    mc_init(argc, argv);
#ifdef MC_FLAVOR_FAST
    {
        /* 32-bit sweep: range-sharded.  quick: one value of every 256-value stratum; thorough: every value */
        uint64_t lo = (0x100000000ULL / mc_nshards) * mc_shard, hi = mc_shard + 1 == mc_nshards ? 0x100000000ULL : (0x100000000ULL / mc_nshards) * (mc_shard + 1), v;
        uint64_t step = mc_thorough ? 1 : 64;
        static char buf[48], exp[48];
        unsigned long long bad = 0;
        for (v = lo; v < hi; v += step) {
            uint32_t x = (uint32_t) (mc_thorough ? v : (v | ((v >> 6) * 2654435761u & 0x3f)));
            for (b = 0; b < 4; b++) for (sg = 0; sg < 2; sg++) {
                int n = ref_fmt(x, 32, bases_all[b], sg, exp);
                size_t r;
                buf[n + 1] = 0x5A;
                r = UInt32ToStrBaseSign(x, buf, 40, (int8_t) bases_all[b], sg ? TRUE : FALSE);
                if ((int) r != n || memcmp(buf, exp, (size_t) n + 1)) {      /* bytes behind the terminator but inside the announced length are the formatter's to use */ if (bad++ < 3) { mc_idx = v; mc_viol("c14/digits/32bit", "value 0x%x base %d %s: returned %d [%s], expected %d [%s]", x, bases_all[b], sg ? "signed" : "unsigned", (int) r, mc_e(buf, r < 40 ? r : 40), n, exp); } }
                n_calls++;
            }
            if ((v & 0xfffff) == 0 && mc_deadline_hit()) break;
            mc_executed++;
            mc_idx = v - lo + 1;          /* progress indicator for the watchdog */
        }
        n_nontrivial = mc_executed;
        mc_idx = hi - lo;
        if (mc_shard == 0) mc_sample("UInt32ToStrBaseSign(v, buf, 40, base, sign) for %s 32-bit v, base in {2,8,10,16}, signed and unsigned", mc_thorough ? "every" : "one in every 64-value stratum of");
        mc_outcome(1); mc_outcome(2);
    }
#else
    for (bits = 32; bits <= 64; bits += 32) {
        build_values(bits, mc_thorough ? 4096 : 512, mc_thorough);
        for (i = 0; i < nvals; i++) for (b = 0; b < 10; b++) for (sg = 0; sg < 2; sg++) {
            int api;
            if (!MC_CASE()) continue;
            mc_case_tag = "value"; mc_case_i[0] = (long long) vals[i]; mc_case_i[1] = bits; mc_case_i[2] = bases_all[b]; mc_case_i[3] = sg;
            for (api = 0; api < 2; api++) { if (api == 1 && sg && b != 2) continue; if (check_one(vals[i], bits, bases_all[b], sg, 70, api)) n_nontrivial++; }
            { char e[80]; ref_fmt(vals[i], bits, bases_all[b], sg, e); mc_outcome(mc_hash(e, strlen(e), 0)); }
        }
        /* every buffer length 0..70 for a boundary set */
        build_values(bits, 8, 0);
        for (i = 0; i < nvals; i++) for (b = 0; b < 5; b++) for (sg = 0; sg < 2; sg++) {
            size_t len;
            if (!MC_CASE()) continue;
            mc_case_tag = "buffer-length"; mc_case_i[0] = (long long) vals[i]; mc_case_i[1] = bits; mc_case_i[2] = bases_all[b]; mc_case_i[3] = sg;
            { static const size_t big[] = {255, 256, 257, 260, 300, 511, 512, 513, 1024, 2048, 65536, 65537};
              int bi; for (bi = 0; bi < 12; bi++) { mc_case_i[4] = (long long) big[bi]; check_one(vals[i], bits, bases_all[b], sg, big[bi], 0); check_one(vals[i], bits, bases_all[b], sg, big[bi], 1); } }
            for (len = 0; len <= 70; len++) { mc_case_i[4] = (long long) len; check_one(vals[i], bits, bases_all[b], sg, len, 0); check_exact(vals[i], bits, bases_all[b], sg, len); if (len < 12) check_one(vals[i], bits, bases_all[b], sg, len, 1); }
            n_nontrivial++;
        }
    }
    if (mc_shard == 0) {
        mc_sample("UInt32ToStrBaseSign(0x80000000, buf, len, 10, signed) for len = 0..70 -> leading characters of -2147483648, NUL iff len > 11");
        mc_sample("UInt64ToStrBaseSign(0xFFFFFFFFFFFFFFFF, buf, 70, 8, unsigned) -> 1777777777777777777777");
    }
#endif
    mc_stat("impl_calls", n_calls);
    mc_stat("nontrivial", n_nontrivial);
    mc_stat("truncated_cases", n_trunc);
    return mc_finish();
}
