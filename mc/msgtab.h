/* msgtab.h - a command table with instrumented handlers shared by the differential harnesses (C08, C09).
 * Every handler logs into TR what it was invoked as and what it decoded; outputs are fixed literals. */
#ifndef MSGTAB_H
#define MSGTAB_H
#include "ctx.h"

static const scpi_choice_def_t mt_choices[] = { {"OFF", 0}, {"ON", 1}, {"MAXimum", 2}, SCPI_CHOICE_LIST_END };

static void mt_hdr(scpi_t * c, const char * name) {
    tr_printf("H:%s#%d(", name, (int) SCPI_CmdTag(c));
    tr_add(c->param_list.cmd_raw.data, c->param_list.cmd_raw.length);
    tr_printf(")");
}
static scpi_result_t mt_plain(scpi_t * c) { int32_t n[2] = {-7, -7}; mt_hdr(c, "plain"); SCPI_CommandNumbers(c, n, 2, -1); tr_printf("n%d,%d;", n[0], n[1]); return SCPI_RES_OK; }
static scpi_result_t mt_plainq(scpi_t * c) { mt_hdr(c, "plainq"); tr_printf(";"); SCPI_ResultInt32(c, 42); return SCPI_RES_OK; }
static scpi_result_t mt_i2(scpi_t * c) {
    int32_t a = -1, b = -1; scpi_bool_t r1, r2;
    mt_hdr(c, "i2");
    r1 = SCPI_ParamInt32(c, &a, TRUE); r2 = r1 ? SCPI_ParamInt32(c, &b, TRUE) : FALSE;
    tr_printf("%d=%d,%d=%d;", (int) r1, r1 ? a : 0, (int) r2, r2 ? b : 0);
    return (r1 && r2) ? SCPI_RES_OK : SCPI_RES_ERR;
}
static scpi_result_t mt_opt(scpi_t * c) { int32_t a = -1; scpi_bool_t r; mt_hdr(c, "opt"); r = SCPI_ParamInt32(c, &a, FALSE); tr_printf("%d=%d,pe%d;", (int) r, r ? a : 0, (int) SCPI_ParamErrorOccurred(c)); return SCPI_RES_OK; }
static scpi_result_t mt_ch(scpi_t * c) { int32_t v = -1; scpi_bool_t r; mt_hdr(c, "ch"); r = SCPI_ParamChoice(c, mt_choices, &v, TRUE); tr_printf("%d=%d;", (int) r, r ? v : 0); return r ? SCPI_RES_OK : SCPI_RES_ERR; }
static scpi_result_t mt_num(scpi_t * c) {
    scpi_number_t n; scpi_bool_t r; memset(&n, 0, sizeof n);
    mt_hdr(c, "num"); r = SCPI_ParamNumber(c, scpi_special_numbers_def, &n, TRUE);
    if (r) { if (n.special) tr_printf("1=s%d;", (int) n.content.tag); else tr_printf("1=%.17g/u%d;", n.content.value, (int) n.unit); } else tr_printf("0;");
    return r ? SCPI_RES_OK : SCPI_RES_ERR;
}
static scpi_result_t mt_txt(scpi_t * c) { char * b = (char *) malloc(24); size_t l = 0; scpi_bool_t r; mt_hdr(c, "txt"); r = SCPI_ParamCopyText(c, b, 24, &l, TRUE); tr_printf("%d=[", (int) r); if (r) tr_add(b, l); tr_printf("];"); free(b); return r ? SCPI_RES_OK : SCPI_RES_ERR; }
static scpi_result_t mt_txtq(scpi_t * c) { char * b = (char *) malloc(24); size_t l = 0; scpi_bool_t r; mt_hdr(c, "txtq"); r = SCPI_ParamCopyText(c, b, 24, &l, TRUE); tr_printf("%d=[", (int) r); if (r) { tr_add(b, l); b[l < 23 ? l : 23] = 0; SCPI_ResultText(c, b); } tr_printf("];"); free(b); return r ? SCPI_RES_OK : SCPI_RES_ERR; }
static scpi_result_t mt_blk(scpi_t * c) { const char * p = NULL; size_t l = 0; scpi_bool_t r; mt_hdr(c, "blk"); r = SCPI_ParamArbitraryBlock(c, &p, &l, TRUE); tr_printf("%d=[", (int) r); if (r) tr_add(p, l); tr_printf("];"); return r ? SCPI_RES_OK : SCPI_RES_ERR; }
static scpi_result_t mt_ib(scpi_t * c) { int32_t a = -1; const char * p = NULL; size_t l = 0; scpi_bool_t r1, r2; mt_hdr(c, "ib"); r1 = SCPI_ParamInt32(c, &a, TRUE); r2 = r1 ? SCPI_ParamArbitraryBlock(c, &p, &l, TRUE) : FALSE; tr_printf("%d=%d,%d=[", (int) r1, r1 ? a : 0, (int) r2); if (r2) tr_add(p, l); tr_printf("];"); return (r1 && r2) ? SCPI_RES_OK : SCPI_RES_ERR; }
static scpi_result_t mt_dbl(scpi_t * c) { double d = -1; scpi_bool_t r; mt_hdr(c, "dbl"); r = SCPI_ParamDouble(c, &d, TRUE); tr_printf("%d=%.17g;", (int) r, r ? d : 0.0); if (r) SCPI_ResultDouble(c, d); return r ? SCPI_RES_OK : SCPI_RES_ERR; }
static scpi_result_t mt_q1(scpi_t * c) { mt_hdr(c, "q1"); tr_printf(";"); SCPI_ResultInt32(c, 7); return SCPI_RES_OK; }
static scpi_result_t mt_q2(scpi_t * c) { mt_hdr(c, "q2"); tr_printf(";"); SCPI_ResultInt32(c, 8); SCPI_ResultText(c, "a\"b"); return SCPI_RES_OK; }
static scpi_result_t mt_q0(scpi_t * c) { mt_hdr(c, "q0"); tr_printf(";"); return SCPI_RES_OK; }
static scpi_result_t mt_q0e(scpi_t * c) { mt_hdr(c, "q0e"); tr_printf(";"); return SCPI_RES_ERR; }
static scpi_result_t mt_q1e(scpi_t * c) { mt_hdr(c, "q1e"); tr_printf(";"); SCPI_ResultInt32(c, 9); return SCPI_RES_ERR; }
static scpi_result_t mt_qpart(scpi_t * c) { mt_hdr(c, "qpart"); tr_printf(";"); SCPI_ResultArbitraryBlockHeader(c, 10); SCPI_ResultArbitraryBlockData(c, "abc", 3); return SCPI_RES_OK; }
static scpi_result_t mt_qtail(scpi_t * c) { size_t w; mt_hdr(c, "qtail"); w = SCPI_ResultArbitraryBlockData(c, "xyz", 3); tr_printf("w%d;", (int) w); return SCPI_RES_OK; }
static scpi_result_t mt_qb(scpi_t * c) { mt_hdr(c, "qb"); tr_printf(";"); SCPI_ResultArbitraryBlock(c, "a;\nb", 4); SCPI_ResultInt32(c, 1); return SCPI_RES_OK; }
static scpi_result_t mt_c0(scpi_t * c) { mt_hdr(c, "c0"); tr_printf(";"); return SCPI_RES_OK; }
static scpi_result_t mt_ce(scpi_t * c) { mt_hdr(c, "ce"); tr_printf(";"); return SCPI_RES_ERR; }
static scpi_result_t mt_arr(scpi_t * c) {
    int32_t * a = (int32_t *) malloc(3 * sizeof (int32_t)); size_t n = 0, k; scpi_bool_t r;
    mt_hdr(c, "arr"); r = SCPI_ParamArrayInt32(c, a, 3, &n, SCPI_FORMAT_ASCII, TRUE);
    tr_printf("%d#%d", (int) r, (int) n); for (k = 0; k < n && k < 3; k++) tr_printf("=%d", a[k]); tr_printf(";");
    free(a); return r ? SCPI_RES_OK : SCPI_RES_ERR;
}
static scpi_result_t mt_expr(scpi_t * c) {
    scpi_parameter_t p; scpi_bool_t r, isr = 0; int32_t f = 0, t = 0; int i;
    mt_hdr(c, "expr"); r = SCPI_Parameter(c, &p, TRUE);
    tr_printf("%d", (int) r);
    for (i = 0; r && i < 3; i++) { scpi_expr_result_t e = SCPI_ExprNumericListEntryInt(c, &p, i, &isr, &f, &t); tr_printf("/%d", (int) e); if (e == SCPI_EXPR_OK) tr_printf(":%d:%d:%d", (int) isr, f, isr ? t : 0); }
    tr_printf(";");
    return r ? SCPI_RES_OK : SCPI_RES_ERR;
}

static const scpi_command_t mt_cmds[] = {
    {"AAAA:Bb", mt_plain, 1}, {"AAAA:Bb?", mt_plainq, 2}, {"AAAA[:Dd]:Ee", mt_plain, 3}, {"AAAA:Cc#", mt_plain, 4}, {"Bb", mt_plain, 5}, {"AAAA:Gg[:Hh]", mt_plain, 8}, {"AAAA:Gg[:Ii]", mt_plain, 9}, {"*XY", mt_plain, 6}, {"*XY?", mt_plainq, 7},
    {"I2", mt_i2, 10}, {"OPT", mt_opt, 11}, {"CH", mt_ch, 12}, {"NUM", mt_num, 13}, {"TXT", mt_txt, 14}, {"TXT?", mt_txtq, 15}, {"BLK", mt_blk, 16}, {"IB", mt_ib, 32}, {"DBL?", mt_dbl, 17}, {"ARR", mt_arr, 18}, {"EXPR", mt_expr, 19},
    {"Q1?", mt_q1, 20}, {"Q2?", mt_q2, 21}, {"Q0?", mt_q0, 22}, {"Q0E?", mt_q0e, 23}, {"Q1E?", mt_q1e, 24}, {"QPART?", mt_qpart, 25}, {"QTAIL?", mt_qtail, 26}, {"QB?", mt_qb, 27}, {"Q1P?", mt_q1, 28},
    {"C0", mt_c0, 30}, {"CE", mt_ce, 31}, {"RESV", NULL, 33}, {"RESV?", NULL, 34},      /* reserved headers: entries without callback */
    {"*CLS", SCPI_CoreCls, 40}, {"*ESR?", SCPI_CoreEsrQ, 41}, {"*STB?", SCPI_CoreStbQ, 42}, {"*IDN?", SCPI_CoreIdnQ, 43}, {"SYSTem:ERRor[:NEXT]?", SCPI_SystemErrorNextQ, 44}, {"SYSTem:ERRor:COUNt?", SCPI_SystemErrorCountQ, 45},
    SCPI_CMD_LIST_END
};
#endif
