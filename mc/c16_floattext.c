/* c16_floattext.c - C16: floating-point text keeps the promised number of significant digits.
 * The value set and, for the printf build, the expected texts come from mc/py_c16.py (Python's own correctly
 * rounded dtoa, independent of glibc): structured decimal mantissas x every decimal exponent -323..308, rounding
 * boundaries d.ddd5 with both neighbouring doubles, all powers of two, subnormals, extremes.
 *   printf build:    SCPI_DoubleToStr / SCPI_ResultDouble must give exactly the %.15g text, SCPI_FloatToStr /
 *                    SCPI_ResultFloat exactly the %.6g text; NaN and infinities their fixed spellings.
 *   built-in build:  SCPI_dtostre for every precision 1..15 (and the double/float helpers): every (value,
 *                    precision, text) is written to a record file and checked in exact rational arithmetic by
 *                    py_c16.post(): within one unit of the last requested significant digit.
 */
#include "ctx.h"
#include "scpi/utils.h"
#include <math.h>

static unsigned long long n_cases = 0, n_nontrivial = 0, n_records = 0;
static int which; static double j_d; static float j_f;
/* the same value through the other routes that produce its text: an exactly fitting caller buffer (strlen + 1 bytes, exact-size heap
 * block), SCPI_NumberToStr without and with a unit, and a one-element ASCII array result; each must carry the text of the roomy call */
static scpi_t * xctx;
static void same_text_elsewhere(int is_float, double dv, float fv, const char * text) {
    size_t tl = strlen(text), r;
    char * fit = (char *) malloc(tl + 1);
    char nb[80], want[80];
    memset(fit, 0x5A, tl + 1);
    r = is_float ? SCPI_FloatToStr(fv, fit, tl + 1) : SCPI_DoubleToStr(dv, fit, tl + 1);
    if (r != tl || memcmp(fit, text, tl + 1)) mc_viol(is_float ? "c16/float-text/exactly-fitting-buffer" : "c16/double-text/exactly-fitting-buffer", "%s(%.17g) into a buffer of %d bytes returned %d [%s], the text is [%s]", is_float ? "SCPI_FloatToStr" : "SCPI_DoubleToStr", is_float ? (double) fv : dv, (int) tl + 1, (int) r, mc_e(fit, tl + 1), text);
    free(fit);
    if (!is_float) {
        scpi_number_t num;
        memset(&num, 0, sizeof num); num.special = FALSE; num.content.value = dv; num.unit = SCPI_UNIT_NONE; num.base = 10;
        r = SCPI_NumberToStr(xctx, scpi_special_numbers_def, &num, nb, sizeof nb);
        if (r != tl || strcmp(nb, text)) mc_viol("c16/number-text", "SCPI_NumberToStr(%.17g, no unit) = [%s], SCPI_DoubleToStr gives [%s]", dv, nb, text);
        num.unit = SCPI_UNIT_VOLT;
        r = SCPI_NumberToStr(xctx, scpi_special_numbers_def, &num, nb, sizeof nb);
        snprintf(want, sizeof want, "%s V", text);
        if (r != strlen(want) || strcmp(nb, want)) mc_viol("c16/number-text", "SCPI_NumberToStr(%.17g V) = [%s], expected [%s]", dv, nb, want);
    }
}

static scpi_result_t h_q(scpi_t * c) { if (which) SCPI_ResultFloat(c, j_f); else SCPI_ResultDouble(c, j_d); return SCPI_RES_OK; }
static const scpi_command_t cmds[] = { {"Q?", h_q, 1}, SCPI_CMD_LIST_END };
static tc_t T;

int main(int argc, char ** argv) {
    FILE * f, * rec = NULL;
    char line[256], recpath[600];
    mc_init(argc, argv);
    if (!mc_aux_path) { printf("VIOL idx=0 sig=c16/harness :: no case file\n"); return 2; }
    f = fopen(mc_aux_path, "r");
    if (!f) { printf("VIOL idx=0 sig=c16/harness :: cannot open %s\n", mc_aux_path); return 2; }
    tc_init(&T, cmds, 16, 4);
    xctx = &T.ctx;
#if USE_CUSTOM_DTOSTRE
    snprintf(recpath, sizeof recpath, "%s.rec.%llu", mc_aux_path, mc_shard);
    rec = fopen(recpath, mc_skip ? "a" : "w");
#else
    (void) recpath;
#endif
    while (fgets(line, sizeof line, f)) {
        char kind = line[0], * exp;
        unsigned long long bits;
        size_t ll = strlen(line);
        char buf[48];
        size_t r;
        if (ll && line[ll - 1] == '\n') line[--ll] = 0;
        if (ll < 4) continue;
        bits = strtoull(line + 2, &exp, 16);
        if (*exp == ' ') exp++;
        if (!MC_CASE()) continue;
        n_cases++;
        mc_case_tag = kind == 'D' ? "double" : "float"; mc_case_i[0] = (long long) bits;
        if (kind == 'D') {
            double v; memcpy(&v, &bits, 8);
#if USE_CUSTOM_DTOSTRE
            {
                int p;
                int thin = !mc_thorough && (mc_idx % 4) != 0;
                for (p = 1; p <= 15; p++) {
                    if (thin && p != 15 && p != 6 && p != 1) continue;
                    if (isnan(v) || isinf(v)) continue;
                    SCPI_dtostre(v, buf, sizeof buf, (unsigned char) p, 0);
                    fprintf(rec, "R %016llx %d %s\n", bits, p, buf); n_records++;
                }
                r = SCPI_DoubleToStr(v, buf, sizeof buf);
                if (!isnan(v) && !isinf(v)) { fprintf(rec, "R %016llx 15 %s\n", bits, buf); n_records++; }
                if (r != strlen(buf)) mc_viol("c16/length", "SCPI_DoubleToStr(%.17g) returned %d for [%s]", v, (int) r, buf);
                if (isnan(v) && strcmp(buf, "nan") && strcmp(buf, "-nan")) mc_viol("c16/nan-spelling", "SCPI_DoubleToStr(NaN) = [%s]", buf);
                if (isinf(v) && strcmp(buf, v > 0 ? "inf" : "-inf")) mc_viol("c16/inf-spelling", "SCPI_DoubleToStr(%g) = [%s]", v, buf);
                if (!isnan(v)) same_text_elsewhere(0, v, 0, buf);
                n_nontrivial++;
            }
#else
            r = SCPI_DoubleToStr(v, buf, sizeof buf);
            if (strcmp(buf, exp) && !(isnan(v) && (!strcmp(buf, "nan") || !strcmp(buf, "-nan")))) { mc_viol(isnan(v) || isinf(v) ? "c16/special-spelling" : "c16/double-text", "SCPI_DoubleToStr(%.17g) = [%s], correctly rounded %%.15g text is [%s]", v, buf, exp); continue; }
            if (r != strlen(buf)) { mc_viol("c16/length", "SCPI_DoubleToStr(%.17g) returned %d for [%s]", v, (int) r, buf); continue; }
            which = 0; j_d = v; tr_reset(); SCPI_Input(&T.ctx, "Q?\n", 3);
            if (OUTN < 2 || OUTN - 2 != strlen(exp) || memcmp(OUT, exp, OUTN - 2)) { if (!isnan(v)) { mc_viol("c16/result-double-text", "SCPI_ResultDouble(%.17g) wrote [%s], expected [%s]", v, mc_e(OUT, OUTN), exp); continue; } }
            if (!isnan(v)) same_text_elsewhere(0, v, 0, buf);
            n_nontrivial++;
            mc_outcome(mc_hash(buf, strlen(buf), 1));
#endif
        } else {
            uint32_t b32 = (uint32_t) bits; float v; memcpy(&v, &b32, 4);
#if USE_CUSTOM_DTOSTRE
            r = SCPI_FloatToStr(v, buf, sizeof buf);
            { double dv = v; unsigned long long db; memcpy(&db, &dv, 8); fprintf(rec, "R %016llx 6 %s\n", db, buf); n_records++; }
            if (!isnan(v)) same_text_elsewhere(1, 0, v, buf);
            n_nontrivial++;
#else
            r = SCPI_FloatToStr(v, buf, sizeof buf);
            if (strcmp(buf, exp)) { mc_viol("c16/float-text", "SCPI_FloatToStr(%.9g) = [%s], correctly rounded %%.6g text is [%s]", (double) v, buf, exp); continue; }
            if (r != strlen(buf)) { mc_viol("c16/length", "SCPI_FloatToStr(%.9g) returned %d for [%s]", (double) v, (int) r, buf); continue; }
            which = 1; j_f = v; tr_reset(); SCPI_Input(&T.ctx, "Q?\n", 3);
            if (OUTN < 2 || OUTN - 2 != strlen(exp) || memcmp(OUT, exp, OUTN - 2)) { mc_viol("c16/result-float-text", "SCPI_ResultFloat(%.9g) wrote [%s], expected [%s]", (double) v, mc_e(OUT, OUTN), exp); continue; }
            if (!isnan(v)) same_text_elsewhere(1, 0, v, buf);
            n_nontrivial++;
            mc_outcome(mc_hash(buf, strlen(buf), 2));
#endif
        }
    }
    fclose(f);
    if (rec) fclose(rec);
    if (mc_shard == 0) {
        mc_sample("double 9.9999999999999949e-233 -> -> %%.15g text 9.99999999999999e-233");
        mc_sample("double 1.000000000000005e17 and both neighbouring doubles (rounding boundary at the 15th digit)");
        mc_sample("float 9.999995f and both neighbouring floats (rounding boundary at the 6th digit)");
    }
    mc_stat("impl_calls", n_cases);
    mc_stat("nontrivial", n_nontrivial);
    mc_stat("records_written", n_records);
    tc_free(&T);
    return mc_finish();
}
