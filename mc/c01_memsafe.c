/* c01_memsafe.c - C01: no out-of-bounds access, undefined behaviour or hang on any input stream.
 * Bounded-exhaustive under ASan + UBSan with exact-size heap blocks for the input buffer (its unused tail is
 * poisoned through the SCPI_PARSER_VERIF hook), the error ring (capacity 2), the static info heap and every
 * out-parameter buffer:
 *  D1  every byte string of length <= L over 28 bytes (one representative per character class the lexer and parser
 *      distinguish), delivered to SCPI_Input whole, split at every single point, and one byte per call, each
 *      followed by a zero-length flush, into input buffers of EVERY size 2..len+2 (every overrun point, every
 *      "token ends exactly at the end of the buffer"), on a fresh context and behind each of 6 residues (open
 *      quote, incomplete block header / body, lone '*', "A:", trailing comma).  Handlers are omnivores: they pull
 *      parameters until exhausted and apply every SCPI_ParamTo*, SCPI_ParamIsNumber, SCPI_ParamToChoice, all four
 *      SCPI_Expr*ListEntry* at indices 0..3 with capacities 0..2 and then every SCPI_Result* to each token.
 *  D2  "A <p> NL" for every parameter text p of length <= L over 20 bytes, once per typed reader (18 readers
 *      incl. SCPI_ParamCopyText with buffers of 0..3 bytes and the array readers with 0..3 slots).
 *  D3  the D1 strings handed NUL-terminated to SCPI_Parse.
 *  D4  every history of <= 4 messages over {undefined headers of length 1..6, SYST:ERR?, *CLS, two undefined units} on one
 *      context (static-heap build: info heap of every size 5..12).
 *  D6  "A <token> NL" for every token length 1..400 of 10 token shapes (long numbers, mnemonics, strings, blocks, lists).
 *  D9  error queues of 127..300 entries filled and drained; messages of 255..70000 bytes streamed, flushed and parsed as one line.
 *  D8  every single-byte substitution and insertion (all 256 byte values) at every position of 16 well-formed messages.
 *  D7  "A <literal> NL" for 12312 decimal literals that round at the 6th/15th digit when echoed (nines runs, 1000..1, 1999..).
 *  D5  "A " + every string of length <= 5 over 11 token-forming bytes (blocks, strings, expressions, lists) in exactly
 *      fitting buffers, whole and one byte per call.
 * Oracle: sanitizer reports, watchdog, "SCPI_Input returned and buffer.position < buffer.length".
 */
#include "ctx.h"
#include "scpi/expression.h"

static const unsigned char S1[] = {'A', 'E', ':', '*', '?', ' ', ',', ';', '\n', '\r', '#', '1', '0', '9', '"', '\'', '(', ')', '.', '-', '+', '@', '!', '_', '/', 0, 0x80, 0xFF};
#define NS1 28
static const unsigned char S2[] = {'A', 'E', '1', '9', '0', '.', '-', '+', ' ', ',', '#', 'H', '"', '\'', '(', ')', ':', '!', '@', 'V'};
#define NS2 20

static unsigned long long n_inputs = 0, n_handler = 0, n_tokens = 0, n_overrun = 0, n_errors = 0, n_nontrivial = 0;
static size_t sink(scpi_t * c, const char * d, size_t n) { (void) c; (void) d; return n; }
static int sink_err(scpi_t * c, int_fast16_t e) { (void) c; (void) e; n_errors++; if (e == SCPI_ERROR_INPUT_BUFFER_OVERRUN) n_overrun++; return 0; }
static scpi_result_t sink_ctl(scpi_t * c, scpi_ctrl_name_t a, scpi_reg_val_t b) { (void) c; (void) a; (void) b; return SCPI_RES_OK; }
static scpi_result_t sink_flush(scpi_t * c) { (void) c; return SCPI_RES_OK; }
static scpi_interface_t itf = { sink_err, sink, sink_ctl, sink_flush, NULL };
static const scpi_choice_def_t choices[] = { {"A", 1}, {"Ee", 2}, SCPI_CHOICE_LIST_END };

static int typed_mode = 0;     /* 0 = omnivore, 1..18 typed reader */

static void omnivore_token(scpi_t * c, scpi_parameter_t * p) {
    int32_t * i32 = (int32_t *) malloc(sizeof (int32_t)); uint32_t * u32 = (uint32_t *) malloc(sizeof (uint32_t));
    int64_t * i64 = (int64_t *) malloc(sizeof (int64_t)); uint64_t * u64 = (uint64_t *) malloc(sizeof (uint64_t));
    float * f = (float *) malloc(sizeof (float)); double * d = (double *) malloc(sizeof (double));
    scpi_bool_t * isr = (scpi_bool_t *) malloc(sizeof (scpi_bool_t));
    int idx, cap;
    n_tokens++;
    *i32 = 0; *u32 = 0; *i64 = 0; *u64 = 0; *f = 0; *d = 0; *isr = 0;
    SCPI_ParamIsNumber(p, TRUE); SCPI_ParamIsNumber(p, FALSE); SCPI_ParamIsValid(p);
    if (SCPI_ParamToInt32(c, p, i32)) SCPI_ResultInt32(c, *i32);
    if (SCPI_ParamToUInt32(c, p, u32)) { SCPI_ResultUInt32Base(c, *u32, 16); SCPI_ResultUInt32Base(c, *u32, 2); SCPI_ResultArbitraryBlockHeader(c, (size_t) *u32);   /* a streamed block as long as the parameter says */ }
    if (SCPI_ParamToInt64(c, p, i64)) SCPI_ResultInt64(c, *i64);
    if (SCPI_ParamToUInt64(c, p, u64)) { SCPI_ResultUInt64Base(c, *u64, 8); SCPI_ResultUInt64Base(c, *u64, 10); }
    if (SCPI_ParamToFloat(c, p, f)) SCPI_ResultFloat(c, *f);
    if (SCPI_ParamToDouble(c, p, d)) SCPI_ResultDouble(c, *d);
    if (SCPI_ParamToChoice(c, p, choices, i32)) SCPI_ResultBool(c, *i32 != 0);
    for (idx = 0; idx < 4; idx++) {
        scpi_parameter_t * pf = (scpi_parameter_t *) malloc(sizeof (scpi_parameter_t)), * pt = (scpi_parameter_t *) malloc(sizeof (scpi_parameter_t));
        int32_t * a = (int32_t *) malloc(sizeof (int32_t)), * b = (int32_t *) malloc(sizeof (int32_t));
        double * da = (double *) malloc(sizeof (double)), * db = (double *) malloc(sizeof (double));
        SCPI_ExprNumericListEntry(c, p, idx, isr, pf, pt);
        if (SCPI_ExprNumericListEntryInt(c, p, idx, isr, a, b) == SCPI_EXPR_OK) SCPI_ResultInt32(c, *a);
        if (SCPI_ExprNumericListEntryDouble(c, p, idx, isr, da, db) == SCPI_EXPR_OK) SCPI_ResultDouble(c, *da);
        free(pf); free(pt); free(a); free(b); free(da); free(db);
        for (cap = 0; cap <= 2; cap++) {
            int32_t * vf = (int32_t *) malloc(sizeof (int32_t) * (size_t) cap), * vt = (int32_t *) malloc(sizeof (int32_t) * (size_t) cap);
            size_t * dims = (size_t *) malloc(sizeof (size_t));
            *dims = 0;
            if (SCPI_ExprChannelListEntry(c, p, idx, isr, vf, vt, (size_t) cap, dims) == SCPI_EXPR_OK && cap) SCPI_ResultInt32(c, vf[0]);
            free(vf); free(vt); free(dims);
        }
    }
    /* results from the raw token text */
    if (p->ptr && p->len >= 0) {
        char * txt = (char *) malloc((size_t) p->len + 1);
        char * small = (char *) malloc(5);
        scpi_number_t num;
        scpi_error_t e;
        memcpy(txt, p->ptr, (size_t) p->len); txt[p->len] = 0;
        SCPI_ResultCharacters(c, p->ptr, (size_t) p->len);
        SCPI_ResultArbitraryBlock(c, p->ptr, (size_t) p->len);
        SCPI_ResultText(c, txt);
        memset(&num, 0, sizeof num); num.content.value = *d; num.unit = SCPI_UNIT_OHM; num.base = 10;
        SCPI_NumberToStr(c, scpi_special_numbers_def, &num, small, 5);
        SCPI_DoubleToStr(*d, small, 5); SCPI_FloatToStr(*f, small, 0); SCPI_Int32ToStr(*i32, small, 5); SCPI_UInt64ToStrBase(*u64, small, 5, 2);
        memset(&e, 0, sizeof e); e.error_code = (int16_t) *i32;
#if USE_DEVICE_DEPENDENT_ERROR_INFORMATION && USE_MEMORY_ALLOCATION_FREE
        e.device_dependent_info = txt;
#endif
        SCPI_ResultError(c, &e);
        free(txt); free(small);
    }
    free(i32); free(u32); free(i64); free(u64); free(f); free(d); free(isr);
}

static scpi_result_t h_omni(scpi_t * c) {
    int guard = 0;
    n_handler++;
    {
        int32_t * nums = (int32_t *) malloc(2 * sizeof (int32_t)), * one = (int32_t *) malloc(sizeof (int32_t)), * none = (int32_t *) malloc(0);
        SCPI_CommandNumbers(c, one, 1, 7); SCPI_CommandNumbers(c, none, 0, 7); free(one); free(none);
        SCPI_CommandNumbers(c, nums, 2, -1); SCPI_IsCmd(c, "A:E?"); SCPI_CmdTag(c);
        free(nums);
    }
    if (typed_mode == 0) {
        scpi_parameter_t * p = (scpi_parameter_t *) malloc(sizeof (scpi_parameter_t));
        while (guard++ < 64 && SCPI_Parameter(c, p, FALSE)) omnivore_token(c, p);
        free(p);
        return (guard & 1) ? SCPI_RES_OK : SCPI_RES_ERR;
    }
    for (guard = 0; guard < 6; guard++) {
        scpi_bool_t r = FALSE;
        scpi_bool_t mand = guard == 0 ? TRUE : FALSE;
        switch (typed_mode) {
            case 1: { int32_t * v = (int32_t *) malloc(4); r = SCPI_ParamInt32(c, v, mand); if (r) SCPI_ResultInt32(c, *v); free(v); break; }
            case 2: { uint32_t * v = (uint32_t *) malloc(4); r = SCPI_ParamUInt32(c, v, mand); if (r) SCPI_ResultArbitraryBlockHeader(c, (size_t) *v); free(v); break; }
            case 3: { int64_t * v = (int64_t *) malloc(8); r = SCPI_ParamInt64(c, v, mand); free(v); break; }
            case 4: { uint64_t * v = (uint64_t *) malloc(8); r = SCPI_ParamUInt64(c, v, mand); free(v); break; }
            case 5: { float * v = (float *) malloc(4); r = SCPI_ParamFloat(c, v, mand); if (r) SCPI_ResultFloat(c, *v); free(v); break; }
            case 6: { double * v = (double *) malloc(8); r = SCPI_ParamDouble(c, v, mand); if (r) SCPI_ResultDouble(c, *v); free(v); break; }
            case 7: { scpi_bool_t * v = (scpi_bool_t *) malloc(sizeof (scpi_bool_t)); r = SCPI_ParamBool(c, v, mand); free(v); break; }
            case 8: { int32_t * v = (int32_t *) malloc(4); r = SCPI_ParamChoice(c, choices, v, mand); free(v); break; }
            case 9: { scpi_number_t * v = (scpi_number_t *) malloc(sizeof (scpi_number_t)); char * s = (char *) malloc(6); memset(v, 0, sizeof *v); r = SCPI_ParamNumber(c, scpi_special_numbers_def, v, mand); if (r) SCPI_NumberToStr(c, scpi_special_numbers_def, v, s, 6); free(v); free(s); break; }
            case 10: { const char * p = NULL; size_t l = 0; r = SCPI_ParamCharacters(c, &p, &l, mand); if (r && l) SCPI_ResultCharacters(c, p, l); break; }
            case 11: { const char * p = NULL; size_t l = 0; r = SCPI_ParamArbitraryBlock(c, &p, &l, mand); if (r) SCPI_ResultArbitraryBlock(c, p, l); break; }
            case 12: case 13: case 14: case 15: { size_t bl = (size_t) (typed_mode - 12), cl = 0; char * b = (char *) malloc(bl ? bl : 1); r = SCPI_ParamCopyText(c, b, bl, &cl, mand); free(b); break; }
            case 16: { size_t n = (size_t) (guard % 4), o = 0; int32_t * a = (int32_t *) malloc(4 * n); r = SCPI_ParamArrayInt32(c, a, n, &o, SCPI_FORMAT_ASCII, mand); if (r && o) SCPI_ResultArrayInt32(c, a, o, SCPI_FORMAT_SWAPPED); free(a); break; }
            case 17: { size_t n = (size_t) (guard % 4), o = 0; double * a = (double *) malloc(8 * n); r = SCPI_ParamArrayDouble(c, a, n, &o, SCPI_FORMAT_ASCII, mand); if (r && o) SCPI_ResultArrayDouble(c, a, o, SCPI_FORMAT_NORMAL); free(a); break; }
            default: { size_t n = (size_t) (guard % 4), o = 0; uint64_t * a = (uint64_t *) malloc(8 * n); float * fa = (float *) malloc(4 * n); r = SCPI_ParamArrayUInt64(c, a, n, &o, SCPI_FORMAT_ASCII, mand); SCPI_ParamArrayFloat(c, fa, n, &o, SCPI_FORMAT_ASCII, FALSE); free(a); free(fa); break; }
        }
        if (!r && guard > 1) break;
    }
    return SCPI_RES_OK;
}

static const scpi_command_t cmds[] = {
    {"A", h_omni, 1}, {"A?", h_omni, 2}, {"E", h_omni, 3}, {"*A", h_omni, 4}, {"*A?", h_omni, 5}, {"A:A", h_omni, 6}, {"A:E?", h_omni, 7}, {"A#", h_omni, 8}, {"[:A]:E#?", h_omni, 9}, {"A_1:E[:A]", h_omni, 10}, {"E#[:A#][:E#]", h_omni, 11}, {"A#:A#:E#?", h_omni, 12},
    {"*CLS", SCPI_CoreCls, 0}, {"SYSTem:ERRor[:NEXT]?", SCPI_SystemErrorNextQ, 0},
    SCPI_CMD_LIST_END
};

static const struct { const char * s; int n; } residues[] = { {"", 0}, {"A \"", 3}, {"A #", 3}, {"A #19", 5}, {"*", 1}, {"A:", 2}, {"A 1,", 4} };
#define NRES 7

static scpi_t ctx;
static scpi_error_t * ering;
#if USE_DEVICE_DEPENDENT_ERROR_INFORMATION && !USE_MEMORY_ALLOCATION_FREE
static char * iheap;
#endif

static void fresh(char * ibuf, size_t blen) {
    SCPI_ErrorClear(&ctx);
    ASAN_UNPOISON_MEMORY_REGION(ibuf, blen);
    memset(ibuf, 0xA5, blen);
    memset(ering, 0, 2 * sizeof (scpi_error_t));
    SCPI_Init(&ctx, cmds, &itf, scpi_units_def, "a", NULL, "c", "d", ibuf, blen, ering, 2);
#if USE_DEVICE_DEPENDENT_ERROR_INFORMATION && !USE_MEMORY_ALLOCATION_FREE
    SCPI_InitHeap(&ctx, iheap, 9);
#endif
}

static void feed(const unsigned char * d, int n) {
    /* the chunk is an exact-size heap copy: a read behind the caller's data traps */
    char * chunk = (char *) malloc((size_t) n);
    if (n) memcpy(chunk, d, (size_t) n);
    SCPI_Input(&ctx, chunk, n);
    free(chunk);
    n_inputs++;
    if (ctx.buffer.position >= ctx.buffer.length) mc_viol("c01/position-not-inside-buffer", "after SCPI_Input: position %d, buffer length %d", (int) ctx.buffer.position, (int) ctx.buffer.length);
}

static void d1_case(const unsigned char * s, int n, size_t blen, char * ibuf, int lite) {
    int r, k, i;
    for (r = 0; r < (lite ? 1 : NRES); r++) {
        for (k = 0; k <= n; k++) {       /* k = 0: whole, 1..n-1: split at k, n: one byte per call */
            if (lite && k != 0 && k != n && k != 2) continue;      /* longest strings: whole, one split, one byte per call; fresh context */
            if (n < 2 && k > 0) continue;
            if (k == n && n < 3) continue;
            fresh(ibuf, blen);
            if (residues[r].n) feed((const unsigned char *) residues[r].s, residues[r].n);
            if (k == 0) feed(s, n);
            else if (k < n) { feed(s, k); feed(s + k, n - k); }
            else for (i = 0; i < n; i++) feed(s + i, 1);
            feed(s, 0);
            if (r == 0 && k == 0) { uint64_t h = ((uint64_t) n_handler << 20) ^ n_tokens ^ ((uint64_t) ctx.registers[SCPI_REG_ESR] << 40); mc_outcome(mc_hash(&h, 8, 0)); }
        }
    }
}

int main(int argc, char ** argv) {
    int L1, L2, len, i, idx[8];
    unsigned char s[16];
    char * ibufs[12];
    size_t bl;
    unsigned long long h0, t0;
    mc_init(argc, argv);
    mc_tail_poison = 1;
    ering = (scpi_error_t *) mc_xalloc(2 * sizeof (scpi_error_t));
    memset(ering, 0, 2 * sizeof (scpi_error_t));
#if USE_DEVICE_DEPENDENT_ERROR_INFORMATION && !USE_MEMORY_ALLOCATION_FREE
    iheap = (char *) mc_xalloc(9);
#endif
    for (bl = 2; bl < 12; bl++) ibufs[bl] = (char *) mc_xalloc(bl);
    { char * b0 = (char *) mc_xalloc(8); SCPI_Init(&ctx, cmds, &itf, scpi_units_def, "a", NULL, "c", "d", b0, 8, ering, 2); }
#if USE_DEVICE_DEPENDENT_ERROR_INFORMATION && !USE_MEMORY_ALLOCATION_FREE
    SCPI_InitHeap(&ctx, iheap, 9);
#endif
    L1 = mc_thorough ? 5 : 4;
    L2 = mc_thorough ? 5 : 4;
#if USE_CUSTOM_DTOSTRE
    if (!mc_thorough) { L1 = 2; L2 = 3; }      /* this configuration differs from the default one only in the formatting of float/double results: D6/D7 carry it */
#endif
    /* ---- D1 + D3 ---- */
    typed_mode = 0;
    for (len = 0; len <= L1; len++) {
        for (i = 0; i < len; i++) { idx[i] = 0; s[i] = S1[0]; }
        for (;;) {
            for (bl = 2; bl <= (size_t) len + 2; bl++) {
                if (len == 5 && bl != 4 && bl != 6 && bl != 7) continue;       /* length 5: three buffer sizes */
                if (!MC_CASE()) continue;
                mc_case_tag = "D1-stream"; mc_case_s[0] = s; mc_case_n[0] = (size_t) len; mc_case_i[0] = (long long) bl;
                h0 = n_handler; t0 = n_tokens;
                d1_case(s, len, bl, ibufs[bl], len >= 5);
                if (n_handler != h0 || n_tokens != t0) n_nontrivial++;
                if (bl == (size_t) len + 2) {       /* D3: complete NUL-terminated line straight to the line parser */
                    char * line = (char *) malloc((size_t) len + 1);
                    mc_case_tag = "D3-parse";
                    memcpy(line, s, (size_t) len); line[len] = 0;
                    fresh(ibufs[bl], bl);
                    SCPI_Parse(&ctx, line, len);
                    n_inputs++;
                    free(line);
                }
            }
            for (i = len - 1; i >= 0; i--) { if (++idx[i] < NS1) { s[i] = S1[idx[i]]; break; } idx[i] = 0; s[i] = S1[0]; }
            if (i < 0) break;
        }
    }
    /* ---- D2: typed readers ---- */
    for (len = 0; len <= L2; len++) {
        for (i = 0; i < len; i++) { idx[i] = 0; s[i] = S2[0]; }
        for (;;) {
            if (MC_CASE()) {
                unsigned char msg[16];
                int m;
                msg[0] = 'A'; msg[1] = ' '; memcpy(msg + 2, s, (size_t) len); msg[len + 2] = '\n';
                mc_case_tag = "D2-typed-reader"; mc_case_s[0] = msg; mc_case_n[0] = (size_t) len + 3;
                h0 = n_handler;
                for (m = 0; m <= 18; m++) {
                    typed_mode = m; mc_case_i[0] = m;
                    fresh(ibufs[10], 10);
                    feed(msg, len + 3);
                    if (len <= 3 || m <= 9) { fresh(ibufs[(size_t) len + 4 < 12 ? (size_t) len + 4 : 11], (size_t) len + 4 < 12 ? (size_t) len + 4 : 11); feed(msg, len + 2); feed(msg, 0); }
                }
                typed_mode = 0;
                if (n_handler != h0) n_nontrivial++;
            }
            for (i = len - 1; i >= 0; i--) { if (++idx[i] < NS2) { s[i] = S2[idx[i]]; break; } idx[i] = 0; s[i] = S2[0]; }
            if (i < 0) break;
        }
    }
    /* ---- D5: parameter-heavy streams: "A " + every string of length <= L5 over 11 token-forming bytes, in a buffer
     *      that the stream fills exactly and in one with 3 bytes to spare; whole + flush and one byte per call ---- */
    {
        static const unsigned char S5[] = {'#', '1', '3', '"', '(', ')', 'A', ',', ' ', '\n', 'H'};
        int L5 = mc_thorough ? 6 : 5;
        typed_mode = 0;
        for (len = 1; len <= L5; len++) {
            for (i = 0; i < len; i++) { idx[i] = 0; s[i] = S5[0]; }
            for (;;) {
                if (MC_CASE()) {
                    unsigned char msg[16];
                    int spare, k;
                    msg[0] = 'A'; msg[1] = ' '; memcpy(msg + 2, s, (size_t) len);
                    mc_case_tag = "D5-parameter-stream"; mc_case_s[0] = msg; mc_case_n[0] = (size_t) len + 2;
                    h0 = n_handler; t0 = n_tokens;
                    for (spare = 1; spare <= 4; spare += 3) {
                        size_t b = (size_t) len + 2 + (size_t) spare;
                        char * ib = (char *) malloc(b);
                        fresh(ib, b); feed(msg, len + 2); feed(msg, 0);
                        fresh(ib, b); for (k = 0; k < len + 2; k++) feed(msg + k, 1); feed(msg, 0);
                        SCPI_ErrorClear(&ctx);
                        ASAN_UNPOISON_MEMORY_REGION(ib, b);
                        free(ib);
                        { char * b0 = ibufs[8]; fresh(b0, 8); }
                    }
                    if (n_handler != h0 || n_tokens != t0) n_nontrivial++;
                }
                for (i = len - 1; i >= 0; i--) { if (++idx[i] < 11) { s[i] = S5[idx[i]]; break; } idx[i] = 0; s[i] = S5[0]; }
                if (i < 0) break;
            }
        }
    }
    /* ---- D6: long tokens: "A <token> NL" for every token length 1..400 of 10 token shapes (digits, digits with blank
     *      exponent, fraction, mnemonic, quoted string, block, expression list, nondecimal, suffix, comma list), omnivore and
     *      typed readers, in an exactly fitting buffer ---- */
    {
        int n, shape, m;
        for (n = 1; n <= 400; n++) for (shape = 0; shape < 10; shape++) {
            unsigned char * msg;
            size_t ml = 0; int k;
            if (!MC_CASE()) continue;
            msg = (unsigned char *) malloc((size_t) n * 2 + 32);
            msg[ml++] = 'A'; msg[ml++] = ' ';
            switch (shape) {
                case 0: for (k = 0; k < n; k++) msg[ml++] = (unsigned char) ('0' + (k * 7 + 1) % 10); break;
                case 1: for (k = 0; k < n; k++) msg[ml++] = (unsigned char) ('0' + (k * 3 + 9) % 10); memcpy(msg + ml, " E -5", 5); ml += 5; break;
                case 2: msg[ml++] = '-'; msg[ml++] = '.'; for (k = 0; k < n; k++) msg[ml++] = (unsigned char) ('0' + k % 10); memcpy(msg + ml, "e+3 V", 5); ml += 5; break;
                case 3: for (k = 0; k < n; k++) msg[ml++] = (unsigned char) (k == 0 ? 'M' : k % 11 == 5 ? '_' : k % 11 == 7 ? '3' : 'a' + k % 26); break;
                case 4: msg[ml++] = '"'; for (k = 0; k < n; k++) { msg[ml++] = (unsigned char) (k % 13 == 3 ? '"' : 'a' + k % 26); if (k % 13 == 3) msg[ml++] = '"'; } msg[ml++] = '"'; break;
                case 5: ml += (size_t) sprintf((char *) msg + ml, "#3%03d", n % 1000); for (k = 0; k < n; k++) msg[ml++] = (unsigned char) (k % 5 == 0 ? '\n' : k); break;
                case 6: msg[ml++] = '('; msg[ml++] = '@'; for (k = 0; k < n; k++) msg[ml++] = (unsigned char) (k % 4 == 0 ? '1' : k % 4 == 1 ? '!' : k % 4 == 2 ? '2' : ','); msg[ml++] = ')'; break;
                case 7: msg[ml++] = '#'; msg[ml++] = (unsigned char) (n % 3 == 0 ? 'H' : n % 3 == 1 ? 'q' : 'B'); for (k = 0; k < n; k++) msg[ml++] = (unsigned char) ('0' + (k & 1)); break;
                case 8: msg[ml++] = '1'; msg[ml++] = ' '; for (k = 0; k < n; k++) msg[ml++] = (unsigned char) (k % 6 == 5 ? '/' : 'A' + k % 26); break;
                default: for (k = 0; k < n; k++) msg[ml++] = (unsigned char) (k & 1 ? ',' : '5'); break;
            }
            msg[ml++] = '\n';
            mc_case_tag = "D6-long-token"; mc_case_i[0] = n; mc_case_i[1] = shape; mc_case_s[0] = msg; mc_case_n[0] = ml < 200 ? ml : 200;
            h0 = n_handler;
            for (m = 0; m <= 18; m++) {
                char * ib;
                if (m > 0 && m != 1 && m != 5 && m != 6 && m != 9 && m != 10 && m != 13 && m != 16 && m != 17) continue;
                ib = (char *) malloc(ml + 1);
                typed_mode = m; mc_case_i[2] = m;
                fresh(ib, ml + 1); feed(msg, (int) ml);
                SCPI_ErrorClear(&ctx);
                ASAN_UNPOISON_MEMORY_REGION(ib, ml + 1);
                free(ib);
                fresh(ibufs[8], 8);
            }
            typed_mode = 0;
            if (n_handler != h0) n_nontrivial++;
            free(msg);
        }
    }
    /* ---- D7: decimal literals whose echo (SCPI_ResultFloat/Double, *ToStr, NumberToStr in the omnivore handler) rounds at the
     *      6th / 15th digit: [sign] nines-run / one-zeros-run of 0..18 digits with the point at three places, a closing digit,
     *      five exponents ---- */
    {
        static const char * exps[] = {"", "E-5", "E10", "E300", "E-310", "E-7"};
        static const char * tails[] = {"", "4", "5", "9", "49", "51"};
        int sg, k, pp, t, e, fam;
        for (fam = 0; fam < 3; fam++) for (sg = 0; sg < 2; sg++) for (k = 0; k <= 18; k++) for (pp = 0; pp < 3; pp++) for (t = 0; t < 6; t++) for (e = 0; e < 6; e++) {
            unsigned char msg[64]; size_t ml = 0; int j, point;
            char * ib;
            if (!MC_CASE()) continue;
            point = pp == 0 ? 0 : pp == 1 ? (k + 1) / 2 : k;
            msg[ml++] = 'A'; msg[ml++] = ' ';
            if (sg) msg[ml++] = '-';
            for (j = 0; j <= k; j++) {
                if (j == point) msg[ml++] = '.';
                if (j < k) msg[ml++] = (unsigned char) (fam == 0 ? '9' : fam == 1 ? (j == 0 ? '1' : '0') : (j == 0 ? '1' : '9'));
            }
            for (j = 0; tails[t][j]; j++) msg[ml++] = (unsigned char) tails[t][j];
            for (j = 0; exps[e][j]; j++) msg[ml++] = (unsigned char) exps[e][j];
            msg[ml++] = '\n';
            mc_case_tag = "D7-rounding-literal"; mc_case_s[0] = msg; mc_case_n[0] = ml;
            h0 = n_handler;
            ib = (char *) malloc(ml + 1);
            typed_mode = 0;
            fresh(ib, ml + 1); feed(msg, (int) ml);
            for (typed_mode = 5; typed_mode <= 17; typed_mode += (typed_mode == 6 ? 3 : typed_mode == 9 ? 8 : 1)) { feed(msg, (int) ml); SCPI_ErrorClear(&ctx); }
            typed_mode = 0;
            SCPI_ErrorClear(&ctx);
            ASAN_UNPOISON_MEMORY_REGION(ib, ml + 1);
            free(ib);
            fresh(ibufs[8], 8);
            if (n_handler != h0) n_nontrivial++;
        }
    }
    /* ---- D8: every single-byte mutation of well-formed messages: each of the 256 byte values substituted for, and inserted
     *      before, every position of 16 base messages that together use every token kind; delivered whole into an exactly
     *      fitting buffer, and in two chunks split at the mutated position into a buffer of 9 bytes (overrun for the longer
     *      ones), each followed by a flush ---- */
    {
        static const char * bases[] = {
            "A 1\n", "A:E1? 12.5E-3 V\n", "*A?;:A \"x\"\"y\"\n", "A #14abcd,'q''r'\n", "A (@1!2:3!4,5)\n", "A #HfF,#q17,#B101\n", "A 1,2;E 3\n", "A MIN,DEF\n",
            "A1:A2:E3? 1\n", "A (1:2,3)\n", "A #0ab\n", "E2:A3 -.5e+3OHM\r\n", "A_1:E:A \t 7 ,\t8\n", "SYST:ERR?;*CLS\n", "A 1 E 2;;A\n", "A \"a\n"
        };
        int bi, pos, b, op;
        for (bi = 0; bi < 16; bi++) {
            int bl0 = (int) strlen(bases[bi]);
            for (pos = 0; pos < bl0; pos++) for (b = 0; b < 256; b++) for (op = 0; op < 2; op++) {
                unsigned char msg[64]; int ml; char * ib;
                if (!MC_CASE()) continue;
                memcpy(msg, bases[bi], (size_t) pos);
                msg[pos] = (unsigned char) b;
                memcpy(msg + pos + 1, bases[bi] + pos + (op ? 0 : 1), (size_t) (bl0 - pos - (op ? 0 : 1)));
                ml = bl0 + op;
                mc_case_tag = "D8-byte-mutation"; mc_case_s[0] = msg; mc_case_n[0] = (size_t) ml; mc_case_i[0] = bi; mc_case_i[1] = pos; mc_case_i[2] = b; mc_case_i[3] = op;
                h0 = n_handler;
                typed_mode = 0;
                ib = (char *) malloc((size_t) ml + 1);
                fresh(ib, (size_t) ml + 1); feed(msg, ml); feed(msg, 0);
                SCPI_ErrorClear(&ctx);
                ASAN_UNPOISON_MEMORY_REGION(ib, (size_t) ml + 1);
                free(ib);
                fresh(ibufs[9], 9); feed(msg, pos + 1); feed(msg + pos + 1, ml - pos - 1); feed(msg, 0);
                SCPI_ErrorClear(&ctx);
                fresh(ibufs[8], 8);
                if (n_handler != h0) n_nontrivial++;
                { uint64_t hh = ((uint64_t) (n_handler - h0) << 20) ^ ((uint64_t) ctx.registers[SCPI_REG_ESR] << 40) ^ (uint64_t) bi; mc_outcome(mc_hash(&hh, 8, 1)); }
            }
        }
    }
    /* ---- D9: sizes at and beyond the limits of 8- and 16-bit counters: an error queue of 129 / 200 / 300 entries filled to the brim by
     *      undefined headers and read back; messages of 255..70000 bytes in an input buffer that holds them, streamed in chunks of
     *      1000 bytes and flushed, and handed to SCPI_Parse as one line ---- */
    {
        static const int qsizes[] = {127, 128, 129, 200, 256, 257, 300};
        static const int msizes[] = {255, 256, 257, 511, 512, 700, 32767, 32768, 40000, 65535, 65536, 70000};
        int qi, mi;
        for (qi = 0; qi < 7; qi++) {
            int q = qsizes[qi], k;
            scpi_error_t * ring; char * ib;
            if (!MC_CASE()) continue;
            mc_case_tag = "D9-large-queue"; mc_case_i[0] = q;
            ring = (scpi_error_t *) malloc(sizeof (scpi_error_t) * (size_t) q); memset(ring, 0, sizeof (scpi_error_t) * (size_t) q);
            ib = (char *) malloc(32);
            SCPI_Init(&ctx, cmds, &itf, scpi_units_def, "a", NULL, "c", "d", ib, 32, ring, (int16_t) q);
#if USE_DEVICE_DEPENDENT_ERROR_INFORMATION && !USE_MEMORY_ALLOCATION_FREE
            SCPI_InitHeap(&ctx, iheap, 9);
#endif
            for (k = 0; k < q + 3; k++) { char m[16]; int ml = sprintf(m, "Z%d\n", k); feed((const unsigned char *) m, ml); }
            for (k = 0; k < q + 3; k++) feed((const unsigned char *) "SYST:ERR?\n", 10);
            SCPI_ErrorClear(&ctx);
            ASAN_UNPOISON_MEMORY_REGION(ib, 32);
            free(ib); free(ring);
            fresh(ibufs[8], 8);
            n_nontrivial++;
        }
        for (mi = 0; mi < 12; mi++) {
            int total = msizes[mi], o = 0, off;
            unsigned char * msg; char * ib;
            if (!MC_CASE()) continue;
            mc_case_tag = "D9-long-message"; mc_case_i[0] = total;
            msg = (unsigned char *) malloc((size_t) total + 1);
            while (o + 6 <= total - 4) { memcpy(msg + o, o % 3 == 0 ? "E 1 ; " : o % 3 == 1 ? "A:A;  " : "*A?  ;", 6); o += 6; }
            while (o < total - 1) msg[o++] = ' ';
            msg[o++] = '\n'; msg[o] = 0;
            ib = (char *) malloc((size_t) total + 8);
            h0 = n_handler; typed_mode = 1;
            fresh(ib, (size_t) total + 8);
            for (off = 0; off < total; off += 1000) feed(msg + off, total - off < 1000 ? total - off : 1000);
            feed(msg, 0);
            fresh(ib, (size_t) total + 8);
            feed(msg, total - 1); feed(msg, 0);           /* without the terminator: executed by the flush */
            SCPI_ErrorClear(&ctx);
            { char * line = (char *) malloc((size_t) total + 1); memcpy(line, msg, (size_t) total + 1); fresh(ib, (size_t) total + 8); SCPI_Parse(&ctx, line, total); n_inputs++; free(line); }
            SCPI_ErrorClear(&ctx);
            typed_mode = 0;
            if (n_handler - h0 < (unsigned long long) (total / 8)) mc_viol("c01/long-message-not-executed", "message of %d bytes (units of 6 bytes): only %llu handler invocations in three deliveries", total, n_handler - h0);
            ASAN_UNPOISON_MEMORY_REGION(ib, (size_t) total + 8);
            free(ib); free(msg);
            fresh(ibufs[8], 8);
            n_nontrivial++;
        }
    }
#if USE_DEVICE_DEPENDENT_ERROR_INFORMATION
    /* ---- D4: histories of messages on ONE context: undefined headers of length 1..6 (their text is stored as
     *      device-dependent information), error queries and *CLS in every order up to 4 steps; small info heap ---- */
    {
        static const char * steps[] = {"Z\n", "ZZ\n", "ZZZ\n", "ZZZZ\n", "ZZZZZ\n", "ZZZZZZ\n", "SYST:ERR?\n", "*CLS\n", "Z:Z;ZZ:ZZ\n"};
        int K = 4, k, st[6], hs;
        for (hs = 5; hs <= 12; hs++) for (k = 1; k <= K; k++) {
            for (i = 0; i < k; i++) st[i] = 0;
            for (;;) {
                if (MC_CASE()) {
                    char * ib = ibufs[11];
                    mc_case_tag = "D4-history"; mc_case_i[0] = hs; mc_case_i[1] = st[0]; mc_case_i[2] = k > 1 ? st[1] : -1; mc_case_i[3] = k > 2 ? st[2] : -1; mc_case_i[4] = k > 3 ? st[3] : -1;
                    fresh(ib, 11);
#if !USE_MEMORY_ALLOCATION_FREE
                    { char * hp = (char *) malloc((size_t) hs); SCPI_InitHeap(&ctx, hp, (size_t) hs);
#endif
                    for (i = 0; i < k; i++) feed((const unsigned char *) steps[st[i]], (int) strlen(steps[st[i]]));
                    SCPI_ErrorClear(&ctx);
#if !USE_MEMORY_ALLOCATION_FREE
                    SCPI_InitHeap(&ctx, iheap, 9); free(hp); }
#endif
                    n_nontrivial++;
                }
                for (i = k - 1; i >= 0; i--) { if (++st[i] < 9) break; st[i] = 0; }
                if (i < 0) break;
            }
#if USE_MEMORY_ALLOCATION_FREE
            if (hs > 5) break;      /* the heap size only matters in the static-heap build */
#endif
        }
    }
#endif
    if (mc_shard == 0) {
        mc_sample("D1: stream [A #1] into input buffers of 2..6 bytes, whole / split at 1,2,3 / byte-wise, + flush, behind 7 residues");
        mc_sample("D2: message [A (1!9\\n] through each of 18 typed readers");
        mc_sample("D3: SCPI_Parse(\"*A?;\")");
    }
    mc_stat("impl_calls", n_inputs);
    mc_stat("nontrivial", n_nontrivial);
    mc_stat("handler_invocations", n_handler);
    mc_stat("tokens_given_to_every_api", n_tokens);
    mc_stat("input_overruns", n_overrun);
    mc_stat("errors_raised", n_errors);
    return mc_finish();
}
