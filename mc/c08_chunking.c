/* c08_chunking.c - C08: behaviour depends on the byte stream, not on how it is cut into input calls.
 * Bounded-exhaustive, differential: streams = every concatenation of 1..3 (thorough 1..4) messages of a
 * 16-message alphabet (queries, two units, block with embedded NL and ';', quoted string with embedded ';',
 * quoted string with embedded NL, empty units, CR LF, undefined header, missing parameter, dangling comma,
 * trailing blanks, number with exponent, common + compound), optionally followed by an unterminated unit.
 * Schedules = EVERY partition for streams of <= 14 bytes, otherwise every partition with <= 2 cut points,
 * every uniform chunk size and all-at-once; reference schedule = one byte per call.  Input buffer of 256
 * bytes and of exactly stream length + 1.
 * Compared: handler invocations with parameters, output bytes, error callbacks, the drained
 * error queue (codes and texts) and the unconsumed remainder.  Second clause: for every prefix p on which
 * SCPI_Input executes nothing, SCPI_Input(p) followed by a zero-length call behaves like SCPI_Parse(p) on a
 * fresh context and leaves the buffer empty.
 */
#include "msgtab.h"

#define MSG(s) { s, sizeof (s) - 1 }
static const struct { const char * p; size_t n; } msgs[] = {
    MSG("Q1?\n"), MSG("AAAA:Bb;Ee\n"), MSG("BLK #15a\n;bc\n"), MSG("TXT? \"a;b\"\n"), MSG("TXT \"a\nb\"\n"), MSG(";;\n"), MSG("Q2?\r\n"), MSG("ZZ:YY\n"), MSG("I2 1\n"), MSG("I2 1,\n"),
    MSG("OPT 5  \n"), MSG("DBL? 1.5e3\n"), MSG("*XY?;:AAAA:Cc12\n"), MSG("Q1?\r"),
    MSG("IB 7,#15a\n;b\n\n"),                       /* block with embedded NL and ; as SECOND parameter */
    MSG("BLK #16\x01\x00\x02\x00\n\x00\n"),     /* NUL bytes (and a NL) inside a block */
    MSG("ZZ:YX 5\r\n"),                           /* undefined header terminated by CR LF: its text must not depend on where the CR LF is cut */
    MSG("Z\n"),                                   /* a message of one byte: its terminator may arrive alone while a single byte is pending */
    MSG("TXT 'abc'\n"), MSG("TXT 'ab\n"),        /* single-quoted string, and one whose closing quote is missing */
};
#define NMSG ((int) (sizeof msgs / sizeof msgs[0]))
#define M_QUOTED_NL 4
/* Known finding "line terminator inside a quoted string" (section 8.4): applies to a stream in which a line terminator lies
 * between an opening quote and a LATER quote of the same kind.  A quote that is never closed does not qualify: the string
 * then ends with the data, whatever the chunking. */
static int quoted_terminator(const char * s, int n) {
    int i, j;
    char open = 0;
    for (i = 0; i < n; i++) {
        if (!open) { if (s[i] == '"' || s[i] == '\'') open = s[i]; }
        else if (s[i] == open) open = 0;
        else if (s[i] == '\n' || s[i] == '\r') {
            for (j = i + 1; j < n; j++) if (s[j] == open) return 1;
            open = 0;
        }
    }
    return 0;
}

static const char * tails[] = { "", "I2 12,34", "Q1", "TXT \"ab", "BLK #14ab" };
#define NTAIL ((int) (sizeof tails / sizeof tails[0]))

static tc_t T;
static int heap_family_only = 0;
static unsigned long long n_runs = 0, n_streams = 0, n_flushchecks = 0, n_calls = 0;

typedef struct { char tr[12288]; size_t trn; char out[1024]; size_t outn; char rem[300]; size_t remn; char q[1024]; size_t qn; } obs_t;

static void finish_obs(obs_t * o) {
    char info[300];
    o->trn = TRN < sizeof o->tr ? TRN : sizeof o->tr - 1; memcpy(o->tr, TR, o->trn);
    o->outn = OUTN < sizeof o->out ? OUTN : sizeof o->out - 1; memcpy(o->out, OUT, o->outn);
    o->remn = T.ctx.buffer.position; if (o->remn > sizeof o->rem) o->remn = sizeof o->rem;
    ASAN_UNPOISON_MEMORY_REGION(T.ibuf, T.ibuf_len);
    memcpy(o->rem, T.ibuf, o->remn);
    o->qn = 0;
    while (SCPI_ErrorCount(&T.ctx) > 0 && o->qn + 320 < sizeof o->q) { int c = tc_pop(&T, info, sizeof info); o->qn += (size_t) snprintf(o->q + o->qn, sizeof o->q - o->qn, "%d:%s|", c, info); }
}

static int same_obs(const obs_t * a, const obs_t * b) {
    return a->trn == b->trn && !memcmp(a->tr, b->tr, a->trn) && a->outn == b->outn && !memcmp(a->out, b->out, a->outn) &&
           a->remn == b->remn && !memcmp(a->rem, b->rem, a->remn) && a->qn == b->qn && !memcmp(a->q, b->q, a->qn);
}

/* cuts: sorted positions 0 < c1 < ... < n where a new chunk starts */
static void run_schedule(const char * s, int n, const int * cuts, int ncuts, size_t buflen, obs_t * o) {
    int i, st = 0;
    if (T.ibuf_len != buflen) { tc_free(&T); tc_init(&T, mt_cmds, buflen, 64); } else tc_reinit(&T, mt_cmds);
    tr_reset();
    for (i = 0; i <= ncuts; i++) {
        int en = i < ncuts ? cuts[i] : n;
        /* the chunk is handed over as an exact-size heap copy */
        char * chunk = (char *) malloc((size_t) (en - st));
        memcpy(chunk, s + st, (size_t) (en - st));
        SCPI_Input(&T.ctx, chunk, en - st);
        free(chunk);
        n_calls++;
        st = en;
    }
    finish_obs(o);
    n_runs++;
}

static void describe(char * buf, size_t bs, const char * s, const int * cuts, int ncuts, int n) {
    size_t o = 0; int i, st = 0;
    for (i = 0; i <= ncuts; i++) { int en = i < ncuts ? cuts[i] : n; o += (size_t) snprintf(buf + o, bs - o, "[%s]", mc_e(s + st, (size_t) (en - st))); st = en; if (o + 80 > bs) break; }
}

static void check_stream(const char * s, int n, int quotednl) {
    static obs_t ref, got;
    int cuts[300], i, j, k, bl;
    char d1[1200];
    const char * sig = quotednl ? "c08/chunking-changes-behaviour/line-terminator-inside-quoted-string" : "c08/chunking-changes-behaviour";
    size_t bufs[2];
    bufs[0] = 256; bufs[1] = (size_t) n + 1;
    n_streams++;
    for (bl = 0; bl < 2; bl++) {
        /* reference: byte at a time */
        for (i = 1; i < n; i++) cuts[i - 1] = i;
        run_schedule(s, n, cuts, n - 1, bufs[bl], &ref);
#define TRY(nc) do { run_schedule(s, n, cuts, (nc), bufs[bl], &got); if (!same_obs(&ref, &got)) { describe(d1, sizeof d1, s, cuts, (nc), n); \
            mc_viol(sig, "stream [%s] (buffer %d) cut as %s: trace [%s] out [%s] queue [%s] rest [%s]; one byte per call: trace [%s] out [%s] queue [%s] rest [%s]", mc_e(s, (size_t) n), (int) bufs[bl], d1, \
                    mc_e(got.tr, got.trn), mc_e(got.out, got.outn), mc_e(got.q, got.qn), mc_e(got.rem, got.remn), mc_e(ref.tr, ref.trn), mc_e(ref.out, ref.outn), mc_e(ref.q, ref.qn), mc_e(ref.rem, ref.remn)); return; } } while (0)
        if (n <= 14) {
            unsigned mask;
            for (mask = 0; mask < (1u << (n - 1)); mask++) { int nc = 0; for (i = 1; i < n; i++) if (mask & (1u << (i - 1))) cuts[nc++] = i; TRY(nc); }
        } else {
            TRY(0);
            for (i = 1; i < n; i++) { cuts[0] = i; TRY(1); }
            for (i = 1; i < n; i++) for (j = i + 1; j < n; j++) { cuts[0] = i; cuts[1] = j; TRY(2); }
            for (k = 2; k < n; k++) { int nc = 0; for (i = k; i < n; i += k) cuts[nc++] = i; TRY(nc); }
        }
    }
    mc_outcome(mc_hash(ref.tr, ref.trn, 0) ^ mc_hash(ref.out, ref.outn, 1));
}

/* zero-length call executes whatever is buffered as a complete message */
static void check_flush(const char * s, int n) {
    static obs_t a, b;
    int p;
    for (p = 1; p <= n; p++) {
        char * line;
        tc_reinit(&T, mt_cmds);
        tr_reset();
        SCPI_Input(&T.ctx, s, p);
        if (TRN || OUTN) continue;                /* something was executed already: not the case of the clause */
        SCPI_Input(&T.ctx, NULL, 0);
        if (T.ctx.buffer.position != 0) { mc_viol("c08/flush-leaves-data", "prefix [%s] + zero-length call leaves %d bytes buffered", mc_e(s, (size_t) p), (int) T.ctx.buffer.position); return; }
        finish_obs(&a);
        tc_reinit(&T, mt_cmds);
        tr_reset();
        line = (char *) malloc((size_t) p + 1); memcpy(line, s, (size_t) p); line[p] = 0;
        SCPI_Parse(&T.ctx, line, p);
        free(line);
        finish_obs(&b);
        n_flushchecks++;
        if (!same_obs(&a, &b)) { mc_viol("c08/flush-differs-from-parse", "prefix [%s]: Input+flush trace [%s] out [%s] queue [%s]; SCPI_Parse trace [%s] out [%s] queue [%s]", mc_e(s, (size_t) p), mc_e(a.tr, a.trn), mc_e(a.out, a.outn), mc_e(a.q, a.qn), mc_e(b.tr, b.trn), mc_e(b.out, b.outn), mc_e(b.q, b.qn)); return; }
    }
}

/* a stream of several hundred bytes in an input buffer of 1024 and of 66000 bytes: fill levels beyond 8 bits, capacities beyond 16 bits.
 * one byte per call against: all at once, every single cut, every uniform chunk size */
static void check_long(const char * s, int n, size_t buflen) {
    static obs_t ref, got;
    static int cuts[2048];
    int i, k;
    char d1[400];
    n_streams++;
    for (i = 1; i < n; i++) cuts[i - 1] = i;
    run_schedule(s, n, cuts, n - 1, buflen, &ref);
#define TRYL(nc, what, arg) do { run_schedule(s, n, cuts, (nc), buflen, &got); if (!same_obs(&ref, &got)) { snprintf(d1, sizeof d1, what, arg); \
        mc_viol("c08/chunking-changes-behaviour/long-stream", "stream of %d bytes [%s...] in a buffer of %d bytes, %s: trace [...%s] queue [%s] rest %d bytes; one byte per call: trace [...%s] queue [%s] rest %d bytes", n, mc_e(s, 40), (int) buflen, d1, \
                mc_e(got.tr + (got.trn > 120 ? got.trn - 120 : 0), got.trn > 120 ? 120 : got.trn), mc_e(got.q, got.qn < 100 ? got.qn : 100), (int) got.remn, mc_e(ref.tr + (ref.trn > 120 ? ref.trn - 120 : 0), ref.trn > 120 ? 120 : ref.trn), mc_e(ref.q, ref.qn < 100 ? ref.qn : 100), (int) ref.remn); return; } } while (0)
    TRYL(0, "delivered in %s call", "one");
    for (i = 1; i < n; i++) { cuts[0] = i; TRYL(1, "cut once at byte %d", i); }
    for (k = 2; k < n; k++) { int nc = 0; for (i = k; i < n; i += k) cuts[nc++] = i; TRYL(nc, "in chunks of %d bytes", k); }
}

int main(int argc, char ** argv) {
    int K, k, i, idx[6], t;
    char s[400];
    mc_init(argc, argv);
    mc_tail_poison = 1;
    tc_log_flush = 0;        /* when the interface is flushed is C06's subject (once per responding message); C08 names handlers, output bytes, errors, remainder */
    tc_init(&T, mt_cmds, 256, 64);
    K = mc_thorough ? 4 : 3;
#if USE_DEVICE_DEPENDENT_ERROR_INFORMATION && !USE_MEMORY_ALLOCATION_FREE
    heap_family_only = !mc_thorough;        /* quick, static-heap build: the short streams of the main family and the heap family below */
#endif
    for (k = 1; k <= K; k++) {
        for (i = 0; i < k; i++) idx[i] = 0;
        for (;;) {
            for (t = 0; t < NTAIL; t++) {
                int n = 0, qnl = 0;
                if (k == K && K > 3 && t > 0) continue;
                if (k >= 3 && t > 1 && !mc_thorough) continue;
                if (!MC_CASE()) continue;
                for (i = 0; i < k; i++) { memcpy(s + n, msgs[idx[i]].p, msgs[idx[i]].n); n += (int) msgs[idx[i]].n; if (idx[i] == M_QUOTED_NL) qnl = 1; }
                n += sprintf(s + n, "%s", tails[t]);
                mc_case_tag = "stream"; mc_case_s[0] = (const unsigned char *) s; mc_case_n[0] = (size_t) n;
                (void) qnl;
                if (heap_family_only && k > 2) continue;
                check_stream(s, n, quoted_terminator(s, n));
                if (k <= 2) check_flush(s, n);
            }
            for (i = k - 1; i >= 0; i--) { if (++idx[i] < NMSG) break; idx[i] = 0; }
            if (i < 0) break;
        }
    }
    if (!heap_family_only) {
        static char ls[1200];
        static const size_t lbuf[2] = {1024, 66000};
        int n = 0, m = 0, bi, variant;
        for (variant = 0; variant < 2; variant++) {
            n = 0; m = variant;
            while (n < (variant ? 760 : 504)) {         /* the messages of the alphabet in rotation, without the two whose quote spans a terminator */
                int mi = m++ % NMSG;
                if (mi == M_QUOTED_NL || mi == NMSG - 1) continue;
                memcpy(ls + n, msgs[mi].p, msgs[mi].n); n += (int) msgs[mi].n;
            }
            for (bi = 0; bi < 2; bi++) {
                if (!MC_CASE()) continue;
                mc_case_tag = "long-stream"; mc_case_i[0] = n; mc_case_i[1] = (long long) lbuf[bi];
                check_long(ls, n, lbuf[bi]);
            }
        }
    }
#if USE_DEVICE_DEPENDENT_ERROR_INFORMATION && !USE_MEMORY_ALLOCATION_FREE
    {   /* static-heap build: texts of undefined headers in a 24-byte heap - stored, released by SYST:ERR?, wrapping around
         * the heap end - while the following message already lies behind the header text in the input buffer or not */
        static const char * hm[] = {"AAAAAAAAAA\n", "BBBBBBBB\n", "SYST:ERR?\n", "DDDD\n"};
        int KH = mc_thorough ? 6 : 5;
        tc_free(&T); tc_heap_len = 24; tc_init(&T, mt_cmds, 256, 8);
        for (k = 1; k <= KH; k++) {
            for (i = 0; i < k; i++) idx[i] = 0;
            for (;;) {
                if (MC_CASE()) {
                    int n = 0;
                    for (i = 0; i < k; i++) n += sprintf(s + n, "%s", hm[idx[i]]);
                    mc_case_tag = "heap-stream"; mc_case_s[0] = (const unsigned char *) s; mc_case_n[0] = (size_t) n;
                    check_stream(s, n, 0);
                }
                for (i = k - 1; i >= 0; i--) { if (++idx[i] < 4) break; idx[i] = 0; }
                if (i < 0) break;
            }
        }
    }
#endif
    if (mc_shard == 0) {
        mc_sample("stream [BLK #15a\\n;bc\\nQ1?\\n] under every partition with <= 2 cuts, every uniform chunk size, all-at-once vs one byte per call");
        mc_sample("stream [Q1?\\n] (4 bytes): all 8 partitions");
        mc_sample("prefix [I2 12,3] + zero-length call vs SCPI_Parse(\"I2 12,3\")");
    }
    mc_stat("streams", n_streams);
    mc_stat("impl_calls", n_calls);
    mc_stat("schedules_run", n_runs);
    mc_stat("nontrivial", n_runs);
    mc_stat("flush_clause_checks", n_flushchecks);
    tc_free(&T);
    return mc_finish();
}
