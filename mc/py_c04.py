"""py_c04.py - Python side of C04 (numeric parameters decode to the value their literal denotes).
gen() enumerates decimal literals from the IEEE 488.2 <DECIMAL NUMERIC PROGRAM DATA> grammar (including the white
space the standard allows before the exponent mark and after it), long-mantissa rounding traps and nondecimal
literals, and writes for each the expected result computed in exact rational arithmetic:
   N <literal hex> <binary64 bits> <binary32 bits> <i32> <u32> <i64> <u64>     ('-' where the literal is not an in-range integer literal)
   X <literal hex> <value> <bits> <binary64 bits> <binary32 bits>
Correct rounding (ties to even, gradual underflow, overflow to infinity) is implemented here on Fractions,
independent of glibc's strtod/strtof that the library uses."""
import os, struct, itertools
from fractions import Fraction
from concurrent.futures import ProcessPoolExecutor

def round_binary(fr, mant, emin, emax):
    """fr: Fraction (may be negative) -> (sign, biased representation as float-like Fraction or 'inf'); returns IEEE bits"""
    ebits = {24: 8, 53: 11}[mant]
    bias = emax
    sign = 1 if fr < 0 else 0
    a = -fr if fr < 0 else fr
    if a == 0:
        return sign << (mant - 1 + ebits)
    # find e with 2^e <= a < 2^(e+1)
    n, d = a.numerator, a.denominator
    e = n.bit_length() - d.bit_length()
    if Fraction(2) ** e > a:
        e -= 1
    elif Fraction(2) ** (e + 1) <= a:
        e += 1
    if e < emin:
        e = emin                        # subnormal: fixed exponent
    # scaled = a / 2^(e - (mant-1))  -> integer part is the significand
    shift = e - (mant - 1)
    scaled = a / (Fraction(2) ** shift)
    q = scaled.numerator // scaled.denominator
    rem = scaled - q
    if rem > Fraction(1, 2) or (rem == Fraction(1, 2) and (q & 1)):
        q += 1
    if q >= (1 << mant):
        q >>= 1
        e += 1
    if e > emax:
        return (sign << (mant - 1 + ebits)) | (((1 << ebits) - 1) << (mant - 1))      # infinity
    if q < (1 << (mant - 1)):           # subnormal (or zero)
        return (sign << (mant - 1 + ebits)) | q
    return (sign << (mant - 1 + ebits)) | ((e + bias) << (mant - 1)) | (q - (1 << (mant - 1)))

def dec_fraction(lit):
    s = ''.join(ch for ch in lit if ch not in ' \t')
    m, _, ex = s.replace('e', 'E').partition('E')
    sign = -1 if m.startswith('-') else 1
    m = m.lstrip('+-')
    ip, _, fp = m.partition('.')
    digits = (ip + fp) or '0'
    val = Fraction(int(digits), 10 ** len(fp))
    if ex:
        val *= Fraction(10) ** int(ex)
    return sign * val

def is_int_literal(lit):
    t = lit[1:] if lit[:1] in '+-' else lit
    return t.isdigit()

def line_for_decimal(lit):
    fr = dec_fraction(lit)
    d = round_binary(fr, 53, -1022, 1023)
    f = round_binary(fr, 24, -126, 127)
    if lit.startswith('-') and fr == 0:          # "-0.0" denotes negative zero
        d |= 1 << 63
        f |= 1 << 31
    ints = ['-'] * 4
    if is_int_literal(lit):
        v = int(lit)
        if -2**31 <= v < 2**31: ints[0] = str(v)
        if 0 <= v < 2**32: ints[1] = str(v)
        if -2**63 <= v < 2**63: ints[2] = str(v)
        if 0 <= v < 2**64: ints[3] = str(v)
    return 'N %s %016x %08x %s' % (lit.encode().hex(), d, f, ' '.join(ints))

def line_for_nondecimal(lit):
    base = {'H': 16, 'Q': 8, 'B': 2}[lit[1].upper()]
    v = int(lit[2:], base)
    return 'X %s %d %d %016x %08x' % (lit.encode().hex(), v, v.bit_length(), round_binary(Fraction(v), 53, -1022, 1023), round_binary(Fraction(v), 24, -126, 127))

def _digit_strings(alpha, maxlen):
    out = ['']
    for l in range(1, maxlen + 1):
        out += [''.join(t) for t in itertools.product(alpha, repeat=l)]
    return out

EXPS = ['0', '1', '2', '8', '00', '03', '10', '23', '38', '100', '308', '323']
HARD = ['9007199254740993', '9007199254740992', '9007199254740991', '9007199254740994', '9007199254740995', '18014398509481985', '16777217', '16777216', '16777219', '33554433',
        '0.1', '0.3', '1e23', '8.5e-324', '2.4703282292062327e-324', '2.4703282292062328e-324', '4.9406564584124654e-324', '1.7976931348623157e308',
        '1.7976931348623158e308', '1.7976931348623159e308', '2.2250738585072011e-308', '2.2250738585072014e-308', '3.4028235e38', '3.4028234663852886e38',
        '3.4028235677973366e38', '3.4028236e38', '1.17549435e-38', '1.1754942e-38', '1e-45', '7e-46', '7.0064923216240854e-46', '7.0064923216240853e-46', '1.4012984643248171e-45',
        '5e-324', '3e-324', '2e-324', '123456789012345678901234567890', '0.000000000000000000000000000001', '1.00000000000000011102230246251565404236316680908203125',
        '1.00000000000000011102230246251565404236316680908203124', '1.00000000000000011102230246251565404236316680908203126', '0.5', '.5', '5.', '+.5e+1', '-5.e-1']

def _literals(tier):
    maxd = 3 if tier == 'thorough' else 2
    ds = _digit_strings('0159', maxd)
    mants = []
    for ip in ds:
        for fp in ds:
            if ip == '' and fp == '':
                continue
            mants.append(ip + '.' + fp)
            if fp == '' and ip != '':
                mants.append(ip)
    exps = ['']
    for bb in ['', ' ', '  ', '\t']:
        for E in 'Ee':
            for ba in ['', ' ']:
                for sg in ['', '+', '-']:
                    for ed in EXPS:
                        exps.append(bb + E + ba + sg + ed)
    for sg in ['', '+', '-']:
        for m in mants:
            for ex in exps:
                yield sg + m + ex
    # long mantissas
    for n in range(1, 26):
        for fill in ('9' * n, '1' + '0' * (n - 1), '1' + '0' * (n - 2) + '1' if n > 1 else '1', '5' * n, ('9007199254740993' * 2)[:n], ('16777217' * 4)[:n]):
            for point in sorted({0, 1, n // 2, n}):
                lit = fill[:point] + '.' + fill[point:] if point < n or point == 0 else fill
                if lit.startswith('.') and len(lit) == 1:
                    continue
                for ex in ('', 'e0', 'E-10', ' E +20', 'e-300', 'E300', 'e-330', 'E 310'):
                    yield lit + ex
                    yield '-' + lit + ex
    for h in HARD:
        yield h
        if h[0] not in '+-':
            yield '-' + h
        if 'e' in h:
            yield h.replace('e', ' E ')
    # literals a hair beside the midpoint of two neighbouring binary32 / binary64 values: correct rounding must look at
    # all digits (a conversion that rounds twice, e.g. via double, goes the wrong way here)
    for mant_bits, e_list in ((24, (-140, -126, -30, -1, 0, 1, 23, 24, 60, 127)), (53, (-1070, -1022, -60, 0, 52, 53, 300, 1023))):
        for e in e_list:
            for m in ((1 << (mant_bits - 1)), (1 << (mant_bits - 1)) + 1, (1 << mant_bits) - 2, (1 << (mant_bits - 1)) + 0x2AAAA):
                lo = Fraction(m) * Fraction(2) ** (e - (mant_bits - 1))
                mid = lo + Fraction(2) ** (e - mant_bits)
                for delta in (Fraction(0), Fraction(1, 10**40) * mid, -Fraction(1, 10**40) * mid, Fraction(1, 10**18) * mid, -Fraction(1, 10**18) * mid):
                    v = mid + delta
                    # decimal literal with 60 significant digits, exponent form
                    import math as _m
                    e10 = len(str(v.numerator // v.denominator)) - 1 if v >= 1 else -len(str(v.denominator // v.numerator))
                    scaled = v / Fraction(10) ** e10
                    digits = str((scaled * 10**59).numerator // (scaled * 10**59).denominator)
                    if delta == 0:
                        # exact midpoints have finite expansions but may need more than 60 digits: skip unless exact
                        if Fraction(int(digits), 10**59) * Fraction(10) ** e10 != v:
                            continue
                    lit = digits[0] + '.' + digits[1:] + 'e%d' % e10
                    yield lit
                    yield '-' + lit
    # integer literals around the type limits
    for v in (0, 1, 7, 2**31 - 1, 2**31, 2**32 - 1, 2**32, 2**63 - 1, 2**63, 2**64 - 1, 12345, 99999999):
        for s in (str(v), '+' + str(v), '-' + str(v), '00' + str(v)):
            yield s

def _nondecimal(tier):
    for letter, digs, maxw in (('H', '0123456789ABCDEFabcdef', 16), ('Q', '01234567', 22), ('B', '01', 64)):
        short = 4 if letter != 'B' else 10
        dset = digs if letter != 'H' or tier == 'thorough' else '0189AFaf7'
        for l in range(1, short + 1):
            for t in itertools.product(dset, repeat=l):
                yield '#' + letter + ''.join(t)
                if l <= 2:
                    yield '#' + letter.lower() + ''.join(t)
        top = digs[-1] if letter != 'H' else 'F'
        for l in range(short + 1, maxw + 1):
            for fill in (top * l, '1' + '0' * (l - 1), '1' + '0' * (l - 2) + '1', ('1' + '0') * (l // 2) + '1' * (l % 2), '7' * l if letter != 'B' else '1' * l):
                if letter == 'Q' and l == 22 and fill[0] not in '01':
                    fill = '1' + fill[1:]
                yield '#' + letter + fill

def _chunk(args):
    kind, lits = args
    return [line_for_decimal(l) if kind == 'N' else line_for_nondecimal(l) for l in lits]

def gen(tier, cfg, bdir, nshards):
    path = os.path.join(bdir, 'c04_cases.txt')
    seen = set()
    lits = []
    for l in _literals(tier):
        if l not in seen:
            seen.add(l); lits.append(l)
    nd = []
    for l in _nondecimal(tier):
        if l not in seen:
            seen.add(l); nd.append(l)
    jobs = [('N', lits[i:i + 20000]) for i in range(0, len(lits), 20000)] + [('X', nd[i:i + 20000]) for i in range(0, len(nd), 20000)]
    with ProcessPoolExecutor(max_workers=16) as ex, open(path, 'w') as f:
        for lines in ex.map(_chunk, jobs):
            f.write('\n'.join(lines)); f.write('\n')
    return path

if __name__ == '__main__':
    # self-test of the rounding routine against Python's own correctly rounded float()
    import random, sys
    random.seed(1)
    bad = 0
    tests = HARD + ['%d.%de%d' % (random.randrange(10**6), random.randrange(10**9), random.randrange(-330, 310)) for _ in range(20000)]
    for t in tests:
        want = struct.unpack('<Q', struct.pack('<d', float(t)))[0] if abs(dec_fraction(t)) < Fraction(10) ** 309 else None
        got = round_binary(dec_fraction(t), 53, -1022, 1023)
        # binary32: compare with the double -> float conversion where no double rounding can occur
        g32 = round_binary(dec_fraction(t), 24, -126, 127)
        try:
            w32 = struct.unpack('<I', struct.pack('<f', float(t)))[0]
            f64 = float(t)
            if Fraction(f64) == dec_fraction(t) and w32 != g32:
                bad += 1; print('MISMATCH32', t, hex(w32), hex(g32))
        except OverflowError:
            pass
        if want is not None and want != got:
            bad += 1; print('MISMATCH', t, hex(want), hex(got))
    print('self-test: %d literals, %d mismatches' % (len(tests), bad))
    sys.exit(1 if bad else 0)
