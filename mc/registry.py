"""registry.py - one entry per claimed property: harness, build configurations, level, rule text.
bin/check and bin/mkmanifest both read this table."""

MC = 'model_checking'

CHECKS = {}
NOT_APPLICABLE = {}   # property id -> reason (properties that are deliberately not claimed)

def reg(cid, **kw):
    CHECKS[cid] = kw

_status_rule = ('explicit-state BFS to the fix-point over the real register machine (SCPI_RegSet/SetBits/ClearBits with every '
                'combination of the representative bits of each of the nine writable registers, ErrorPush of one code per modelled '
                'class, ErrorPop, ErrorClear, and the status commands through SCPI_Input); state key = the ten registers + queue count; '
                'every transition is a real API call checked against the invariant / transition rules; non-trivial = transition that '
                'changed a register or the queue count. The alphabet also sets and clears status-byte bit 4, which belongs to the application, '
                'with SRE carrying that bit: it takes part in MSS like the four summary bits. Behind the BFS: each enable command (*ESE, *SRE, '
                'STAT:OPER:ENAB, STAT:QUES:ENAB) with every argument 0..65535 from five base states (one with pending events in the upper byte), '
                'and the application bits 0, 1, 4 of the status byte in every combination against every SRE byte, SRE written before or after. ')

reg('C11',
    title='status byte equals the summary of the registers behind it',
    src='c11_status.c', engine='mcx',
    configs={'quick': ['def', 'noinfo', 'c90', 'heap', 'def+fast'], 'thorough': ['def', 'noinfo', 'c90', 'heap', 'def+fast']},
    deadline={'quick': 400, 'thorough': 2500},
    level=MC,
    technique='explicit-state model checking (BFS with canonical-state deduplication) of the real register machine against a 10-line summary model',
    rule={'quick': _status_rule + 'quick: sanitised run with 1 bit per register, unsanitised runs with 2 bits per register (3 for SRE), one per register group in focus; Set/ClearBits operations also with multi-bit masks; RegSet of every 16-bit value on each of the nine writable registers from 4 base states, Set/ClearBits of every mask over 4 spread bits on every prior value, a 300-entry error queue; strict-C90 build; static-heap build: every history of <= 6 operations over 8 (pushes whose text fits / does not fit / is empty, pop, clear, SYST:ERR?) on an 8-byte info heap.',
          'thorough': _status_rule + 'thorough: additionally 3 bits for the group in focus.'},
    assumptions=['queue contents (codes) cannot influence registers or SRQ callbacks, only the count can: states are keyed on the count',
                 'STB is never written directly by the driver (the statement quantifies over event/condition/enable/SRE writes only)',
                 'USE_CUSTOM_REGISTERS and transition filters are not built'],
    level_text='Exhaustive within the stated register-bit alphabet: every reachable state of the real implementation is visited and the summary invariant evaluated in each; BFS reaches a fix-point, so history length is unbounded.',
    level_note='trusts the harness state restore (checked: recomputed key must equal stored key) and that register bits outside the representative set behave like those inside (the code treats all 16 bits uniformly; bit 6 and a bit above 8 are included)',
    design_ref='DESIGN.md section 3 / C11')

reg('C12',
    title='events are classified, latched and announced',
    src='c11_status.c', cflags=['-DC12_MODE=1'], engine='mcx',
    configs={'quick': ['def', 'noinfo', 'c90', 'def+fast'], 'thorough': ['def', 'noinfo', 'c90', 'def+fast']},
    deadline={'quick': 400, 'thorough': 2500},
    level=MC,
    technique='explicit-state model checking of the real register machine with per-transition latch/clear/SRQ rules, plus exhaustive enumeration of all 65536 error codes',
    rule={'quick': _status_rule + 'Additionally ErrorPush of each of the 65536 codes on three ESR pre-states (class table from SCPI-99 21.8); the SRQ clauses are evaluated both against the status byte and against MSS as the register contents define it. quick bounds as C11.',
          'thorough': _status_rule + 'Additionally ErrorPush of each of the 65536 codes on three ESR pre-states. thorough bounds as C11.'},
    assumptions=['extra SRQ callbacks while MSS is already 1 are allowed (the statement does not forbid them)',
                 'on queue overflow the class bit of the pushed code is required; the bit of -350 itself is tolerated in addition',
                 'STATus:PRESet may (but need not) clear the questionable event register'],
    level_text='Exhaustive over the full 16-bit code space for classification, and over every transition of the bounded register state space for latching, clearing and SRQ announcement.',
    level_note='same trusted base as C11; the SRQ callback is observed together with the STB value read at that instant',
    design_ref='DESIGN.md section 3 / C12')

reg('C10',
    title='error queue is a bounded FIFO that marks overflow and owns its texts',
    src='c10_fifo.c', engine='mcx', ldflags=['-Wl,--wrap=strndup,--wrap=free,--wrap=malloc'],
    configs={'quick': ['def', 'noinfo', 'c90'], 'thorough': ['def', 'noinfo', 'c90']},
    deadline={'quick': 400, 'thorough': 2000},
    level=MC,
    technique='explicit-state model checking (BFS to the fix-point) of the real queue in lock-step with a reference FIFO, with allocation faults as operations and an allocator ledger',
    rule=('explicit-state BFS to the fix-point, one run per queue capacity (quick 1..4, thorough 1..6): operations = push of 3 codes x {no text, "a", bb"c, '
          'bb"c with info_len 2 (thorough: + 300-byte text)} x allocator answer {ok, NULL}, SCPI_ErrorPop (+ release of the returned text), '
          'SCPI_ErrorClear, SCPI_ErrorCount, SYST:ERR?, SYST:ERR:COUN?, *CLS, two SYST:ERR? in one message; key = wr/rd/count, all ring slots, '
          'allocator slots, registers, model queue; every transition is compared with the reference FIFO and the allocator ledger; '
          'after the capacity-2 run a limit sweep: 5 codes x content lengths 249..259 and texts of 256 / 257 / 300 characters, every text with an apostrophe, x double quotes at the first place and at up to two of the last six places, pushed with automatic / explicit length (unterminated source), read back by pop and by SYST:ERR? against the same response model; '
          'non-trivial = transition that pushes or changes the number of queued errors'),
    assumptions=['strndup/free are replaced at link time (--wrap) by a slot arena; freed and unused arena bytes are ASan-poisoned',
                 'error codes and texts outside the alphabet behave alike (the queue never inspects them)'],
    level_text='Exhaustive for capacities 1..4 (quick) / 1..6 (thorough): the BFS reaches the fix-point of the reachable state set, so every history of any length over the operation alphabet is covered, including every placement of an allocation failure.',
    level_note='trusts the link-time allocator wrapper (all library allocations go through strndup/free) and ASan manual poisoning',
    design_ref='DESIGN.md section 3 / C10')

reg('C20',
    title='allocation-free build stores error texts intact or not at all',
    src='c20_heap.c', engine='mcx',
    configs={'quick': ['heap'], 'thorough': ['heap']},
    deadline={'quick': 400, 'thorough': 4500},
    level=MC,
    technique='explicit-state model checking (BFS to the fix-point) of the real static-heap error queue against a "text or nothing" reference FIFO',
    rule=('explicit-state BFS, one run per (heap size H, queue capacity N), H = 2..8 x N = 1..3 (quick) / H = 2..12 x N = 1..4 (thorough): operations = '
          'push with a text of every length 0..H (letter not used by any live entry), two pushes with explicit shorter info_len, one with explicit exact length from an unterminated buffer, three pushes of texts whose last / first character is a double quote, one whose last character is an apostrophe, one with a positive error number, one with an explicit length beyond the end of the text, push without text, '
          'SYST:ERR?, SCPI_ErrorClear, *CLS; key = queue indices and entries (text pointers as heap offsets), heap bytes, heap wr/count, model; every '
          'SYST:ERR? response is compared with the reference FIFO (exact text or none); in every state with an empty queue a probe push of H-1 characters '
          'must be stored whole; the text variants (quotes, apostrophe, positive number, explicit lengths) are part of the alphabet for H <= 8 and N <= 3, the larger spaces of the thorough tier use the plain texts; runs with N = 4 and H >= 6 are explored to depth 9 (every history of <= 9 operations) instead of to the fix-point; a 320-byte heap with texts of 100..319 characters (linear scenario); non-trivial = transition that pushes or changes the number of queued errors'),
    assumptions=['built with -DUSE_MEMORY_ALLOCATION_FREE=0 (a configuration the repository test suite never compiles)',
                 'the heap and the error ring are exact-size malloc blocks under ASan, so any access outside them traps'],
    level_text='Exhaustive for the stated heap sizes and capacities: BFS to the fix-point of the reachable state set (or the stated cap), every history over the operation alphabet.',
    level_note='texts are runs of one letter, three of them with a double quote at the first or last place; the 255-character cut is the subject of C18 (a linear large-heap scenario with texts above 255 characters is part of this check)',
    design_ref='DESIGN.md section 3 / C20')

reg('C13',
    title='tokenizer recognises exactly the IEEE 488.2 program-data token syntax',
    src='c13_lexer.c',
    configs={'quick': ['def'], 'thorough': ['def', 'c90']},
    deadline={'quick': 400, 'thorough': 2000},
    level=MC, nontrivial_stat='nontrivial',
    technique='bounded-exhaustive enumeration of all input strings up to length L per recogniser, executed on the real lexer (ASan) and compared with independent reference recognisers',
    rule={'quick': 'every string of length <= L (5 or 6, per recogniser) over an alphabet with one representative per character class the recogniser distinguishes, for each of the 14 scpiLex_* recognisers, scpiParser_parseProgramData, scpiParser_parseAllProgramData and scpiParser_detectProgramMessageUnit (L=5, 17 symbols), each in 3 buffer placements (exact-size heap copy; embedded at offset 3 between attractive bytes; cursor in mid-buffer; and the embedded placement again with every byte of the alphabet of the recogniser directly behind the input), every byte value 0..255 behind the # of a block or nondecimal literal, block headers that announce 127..9999999999 bytes without the data (limits of 8/16/31/32-bit counters), plus grammar-generated blocks/strings/headers up to 320 bytes; non-trivial = input on which the reference recognises a token / a well-formed unit',
          'thorough': 'as quick with L = 6 or 7 per recogniser and L=6 for the unit detector'},
    assumptions=['the reference implements the three documented leniencies (relaxed suffix, definite-length blocks only, flat expressions) and the incomplete-input conventions listed in ref_lex.h',
                 'characters are represented by class (one representative each); the recognisers only branch on class membership'],
    level_text='Exhaustive over all strings up to the stated length for every recogniser: any disagreement in return value, type, extent, length or cursor with the reference, or any read outside the input, is reported.',
    level_note='private (LOCAL) lexer functions are called by name, as the repository tests do',
    design_ref='DESIGN.md section 3 / C13')

reg('C19',
    title='numeric and channel lists decode entry by entry exactly as written',
    src='c19_expr.c',
    configs={'quick': ['def', 'noinfo'], 'thorough': ['def', 'noinfo', 'c90']},
    deadline={'quick': 400, 'thorough': 2000},
    level=MC,
    technique='bounded-exhaustive enumeration of all expression bodies up to length L x index x capacity on the real expression API (ASan), compared with a reference list grammar',
    rule={'quick': 'every expression body of length <= 6 over {1 2 0 - . : , ! @ blank A E +} between parentheses, queried at every index 0..9 (0..4 for length 6) through the three numeric-list entry functions and through the channel-list function with every capacity 0..4 (exact-size heap value arrays) and with capacity 0 announced with NULL arrays, plus generated lists of 1..8 entries x 1..5 dimensions with every range placement and lists of long numbers with signed exponents and blanks at the exponent mark and the int32 limits; default and no-info builds; non-trivial = body that is a well-formed numeric or channel list',
          'thorough': 'as quick with bodies of length <= 7'},
    assumptions=['lazy validation is accepted: entry i may be reported OK when the body starts with i+1 well-formed comma-separated entries, whatever follows',
                 'for a malformed numeric list both NO_MORE and ERROR are accepted where OK is not allowed; for a malformed channel list only ERROR with -170',
                 'integer value of an entry = integer part of its decimal token; double value = strtod of the token text'],
    level_text='Exhaustive over all bodies up to the stated length, every index and every capacity: any unsound OK, wrong value/range/dimension, NO_MORE for an existing entry, missing -170 or store beyond the announced capacity is reported.',
    level_note='libc strtod is trusted for the expected double values (C04 checks the conversions independently)',
    design_ref='DESIGN.md section 3 / C19')

reg('C03',
    title='a pattern accepts exactly the headers of its short/long-form language',
    src='c03_pattern.c',
    configs={'quick': ['def', 'c90'], 'thorough': ['def', 'c90']},
    deadline={'quick': 400, 'thorough': 4000},
    level=MC,
    technique='bounded-exhaustive enumeration of (pattern, header) pairs on the real matcher (ASan), compared with an independent reference matcher, plus the public SCPI_Input path',
    rule={'quick': 'patterns: all 1248 patterns of 1..4 keywords taken in order from {ABcd, EFgh, IJ, KLMno}, each keyword optional and/or numeric, with/without ?, plus 44 shipped/common patterns. headers per pattern: (A) every sequence of <= 3 mnemonics over {short, long, long-letter, short+"1"} of each keyword plus an alien mnemonic x colon x ? x 2 cases; (B) every keyword subset / alien insertion / adjacent swap spelled (up to 4 mnemonics) with every combination of 5 forms per mnemonic x colon x ? x 3 cases; (C) for every numeric-suffix keyword of every pattern a correctly spelled header (short and long form) with each of 27 suffix texts behind that keyword (leading zeros up to 15 digits whose value still fits 32 bits, digits 8/9, 2147483647; sign, blank, tab, letter, radix prefix, exponent, point) x colon x ? x 3 cases; a second vocabulary {SYNChronization, W3GPp, RX_Level, IEEE488, W, RX} (keyword above 12 characters, digit or underscore inside the short form, keyword without lower-case part, keyword that is a prefix of another): 384 patterns of 1..2 keywords in 6 shapes; an eighth of the first-vocabulary patterns and all others additionally through SCPI_Input -> handler -> SCPI_CommandNumbers. non-trivial = header the reference accepts',
          'thorough': 'as quick with <= 5 (4 for 4-keyword patterns) mnemonics in (A), 8 forms and up to 5 mnemonics in (B) and every pattern through SCPI_Input'},
    assumptions=['vocabulary keywords have pairwise distinct short and long forms and optional keywords are only combined with keywords of a different initial, which guarantees the statement\'s unambiguity side condition',
                 'a numeric suffix of up to 10 digits fits int32; larger values are not enumerated (the statement does not define them)'],
    level_text='Exhaustive over the stated pattern and header sets: any accept/reject disagreement with the reference language, any wrong or missing numeric suffix (including defaults for skipped keywords), and any read outside the header are reported.',
    level_note='matchCommand is a private (LOCAL) function called by name, as in the repository tests; SCPI_Match / SCPI_CommandNumbers cover the public path',
    design_ref='DESIGN.md section 3 / C03')

reg('C02',
    title='each message unit runs exactly the first command matching its effective header',
    src='c02_dispatch.c',
    configs={'quick': ['def', 'c90', 'noinfo', 'heap'], 'thorough': ['def', 'noinfo', 'c90', 'heap']},
    deadline={'quick': 400, 'thorough': 3000},
    level=MC,
    technique='bounded-exhaustive enumeration of (command table, message) pairs executed through SCPI_Input (ASan, tail-poisoned input buffer), compared with a reference interpreter of the header-path and first-match rules',
    rule={'quick': 'command tables: every ordered pair (110) and triple (990) of a pool of 11 overlapping patterns plus the whole pool in two orders; messages: every sequence of 1..3 units (1..2 for triples) over 31 header spellings (handlers of every second table entry fail with -200) (short/long, letter case, leading colon, optional keyword present/absent, numeric suffix, common, undefined with and without colons, undefined ones that differ from a defined keyword in the last character only) x 2 separator styles; the same for a second vocabulary of 9 patterns and 21 spellings (keywords of 13 and 15 characters, short forms holding a digit or underscore, a keyword that is a prefix of another, numeric suffix behind a 13-character keyword; ordered pairs and the whole pool in two orders) and for a third vocabulary of 7 patterns and 16 spellings whose patterns end in optional keywords with a numeric suffix next to plainer entries overlapping them (OUTPut#[:CHANnel#] / OUTPut#, SOURce#:LEVel[:IMMediate#]? / SOURce#:LEVel?, ...); entry tags beyond 16 bits; also in the build without error texts and in the static-heap build (a text that no longer fits the info heap may be dropped, its -113 may not); a table of 300 entries C0..C299 probed at indices around 127/128, 255/256 and beyond the end, alone and as second unit; non-trivial = every message (each is compared unit by unit with the reference trace)',
          'thorough': 'as quick with 1..4 units (1..3 for triples and for the second vocabulary, which also gets its triples), additionally in the no-info build'},
    assumptions=['after a common (*) command the next unit uses its header as written, as the statement says',
                 'the -113 text only has to contain the header as written'],
    level_text='Exhaustive over the stated tables and messages: wrong entry, wrong effective header, handler run twice/not at all, missing or spurious -113, and disagreement of SCPI_CmdTag / SCPI_IsCmd / SCPI_CommandNumbers with the model are reported.',
    level_note='units carry no parameters here (C05 covers parameters)',
    design_ref='DESIGN.md section 3 / C02')

reg('C05',
    title='wrong, missing or surplus parameters raise the right error, never mis-delivered',
    src='c05_params.c',
    configs={'quick': ['def', 'c90'], 'thorough': ['def', 'c90']},
    deadline={'quick': 400, 'thorough': 2500},
    level=MC,
    technique='bounded-exhaustive enumeration of (handler signature, parameter list) pairs executed through SCPI_Input on a fresh context (ASan), compared with a model of the statement driven by the reference tokenizer',
    rule={'quick': 'signatures: every sequence of 0..2 typed reads (10 readers x mandatory/optional) x handler result OK/ERR x stop/continue after a failed read (1684 signatures); lists: every sequence of 0..3 items over 14 well-formed data items of every type (numbers with/without known/unknown suffix, nondecimal, character data, strings and blocks and expressions containing commas) and 4 malformed fragments (empty item, open string, two numbers, @) x 4 white-space styles around the commas x 5 deliveries (NL, behind a failing unit, flush, SCPI_Parse, behind another message in one call + flush); for signatures of <= 1 read additionally a handler that reports an error of its own through SCPI_ErrorPush / SCPI_ErrorPushEx; lists of 1..1000 items; the same units with the error queue already full, and with exactly one place free (the error of the unit itself must then be in the queue); #H/#Q/#B items of two equal digits for every digit 0-9A-Fa-f and both cases of the radix letter, alone and as second list item (a digit outside the radix must make the unit malformed); every unit suffix of a golden copy of the unit table (mc/golden_units.h) delivered as known with its unit and multiplier, alone and in a list, and the same name plus one letter refused with -131; non-trivial = well-formed unit (the model then predicts the complete trace of reads, values and errors)',
          'thorough': 'signatures of 0..3 reads (lists of 0..2 items for 3 reads)'},
    assumptions=['a suffixed number handed to a non-numeric reader may raise -104 or -138 (the statement is ambiguous there)',
                 'integer value of a non-integer decimal literal is not compared (C04 owns conversions)',
                 'malformed units: any number >= 1 of errors, all in -100..-199'],
    level_text='Exhaustive over the stated signatures and lists: every deviation of the read results, delivered values, error codes and their order, -200/-108 accounting and the SCPI_Input return value from the model is reported.',
    level_note='item classification uses the independent reference lexer of C13; unit names come from the exported unit table',
    design_ref='DESIGN.md section 3 / C05')

reg('C06',
    title='responses are framed: ; between units, , between items, one terminator',
    src='c06_framing.c',
    configs={'quick': ['def', 'lf'], 'thorough': ['def', 'lf', 'c90']},
    deadline={'quick': 400, 'thorough': 3000},
    level=MC,
    technique='bounded-exhaustive enumeration of messages x predecessor histories executed through SCPI_Input (ASan), byte-exact comparison of write()/flush() with a framing model',
    rule={'quick': 'every message of 1..5 units over 17 unit kinds (commands OK/ERR/with unread parameter; queries emitting 0/1/2/4 results of 16 rotating result types - integers in 4 bases, float, double, bool, text, mnemonic, blocks whole and streamed, ASCII and binary arrays incl. empty ones, error - then OK / ERR / ERR with own error / parameter left unread; undefined header; invalid unit; empty unit), each on a fresh context and after each of 13 predecessor messages (one leaves the error queue full); plus units with 254..1025 result items and blocks of 255..131073 bytes (one-shot and streamed) as FIRST item of a unit followed by a second item (total length and hash of the output); the error result carries a text with an apostrophe and double quotes, one block result ends in the last byte of the line terminator; every message of <= 3 units over 23 units handled by the handlers the library ships (*IDN? *TST? *OPC? *ESE? *ESR? *SRE? *STB? SYST:ERR? SYST:ERR:COUN? SYST:VERS? STAT:QUES? STAT:QUES:ENAB? STAT:OPER:COND? *RST *CLS *WAI *OPC *ESE STAT:QUES:ENAB STAT:PRES STUB STUB?) on a context with queued errors and event bits, compared with the same units sent one per message (differential: non-empty responses joined by ; plus one terminator); default (CR LF) and LF line-ending builds, the terminator taken from SCPI_LINE_ENDING; non-trivial = message in which at least one unit responds',
          'thorough': 'messages of 1..6 units (6-unit messages after 4 histories)'},
    assumptions=['a unit responds iff it is a query whose handler emitted at least one result or completed without error (an empty successful query is an empty response unit)',
                 'non-query handlers emit nothing (a command that writes results is handler misuse)'],
    level_text='Exhaustive over the stated messages and histories: output bytes, number and position of flushes and number of errors are compared with the model for every one.',
    level_note='result item texts are fixed literals (their correctness is the subject of C07/C14/C16/C17)',
    design_ref='DESIGN.md section 3 / C06')

reg('C09',
    title='messages and units are isolated: nothing but status and errors carries over',
    src='c09_isolation.c',
    configs={'quick': ['def', 'heap'], 'thorough': ['def', 'noinfo', 'heap', 'c90']},
    deadline={'quick': 400, 'thorough': 2000},
    level=MC,
    technique='bounded-exhaustive differential enumeration: every ordered pair of messages executed on the real parser (ASan), trace of B after A compared with B on a fresh context',
    rule={'quick': 'message set M = 49 single units (three address table entries without callback) + all 2401 ordered unit pairs (compound paths, common commands, every parameter kind incl. malformed lists and dangling comma, queries that succeed / fail midway / leave a block unfinished / write block data without header, invalid and incomplete units), each NL-terminated; ordered pairs (A, B): all |M|^2 = 4.7 M, plus A and an unterminated single-unit B in one call executed by a flush; compared: handler invocations with effective header and decoded parameters, output bytes, flushes, error callbacks, SCPI_Input result; histories with an input-buffer overrun; single units terminated by a bare CR and by CR LF before each single-unit B; a long message A of 255..70000 bytes of valid units in a 70016-byte buffer (whole and in two chunks) before each single-unit B; static-heap build: single-unit pairs and every history of <= 5 messages over {two undefined headers, SYST:ERR?, *CLS, two undefined headers in one message} on a 16-byte info heap, the queue read back and *CLS, then B whose queued error TEXTS are compared with B on a fresh context; non-trivial = pair whose A executed a handler or raised an error',
          'thorough': 'additionally every two-message history (A1, A2 single units) x every B in M (2.9 M), also in the no-info build'},
    assumptions=['B never queries status registers or the error queue (excepted by the statement); error queue capacity 64 so overflow cannot alias the comparison',
                 'A is always a terminated message (the harness asserts that nothing stays pending after A)'],
    level_text='Exhaustive over the stated message pairs: any difference between B-after-A and B-alone is reported with both traces.',
    level_note='differential oracle: no expected values are written by hand',
    design_ref='DESIGN.md section 3 / C09')

reg('C08',
    title='behaviour depends on the byte stream, not on how it is cut into input calls',
    src='c08_chunking.c',
    configs={'quick': ['def', 'heap'], 'thorough': ['def', 'heap']},
    deadline={'quick': 400, 'thorough': 2500},
    level=MC,
    technique='exhaustive enumeration of input segmentations (schedules) of bounded streams on the real SCPI_Input (ASan, tail-poisoned buffer), differential against the byte-at-a-time schedule',
    rule={'quick': 'streams: every concatenation of 1..3 messages of a 16-message alphabet (block with embedded NL and ; as first and as second parameter, block with NUL bytes, quoted string with embedded ; and with embedded NL, empty units, CR LF, bare CR, undefined header, missing parameter, dangling comma, trailing blanks, exponent number, common+compound), optionally followed by an unterminated unit (5 tails); schedules: EVERY partition for streams <= 14 bytes, else every partition with <= 2 cut points + every uniform chunk size + all-at-once, in a 256-byte and an exactly-fitting input buffer, against one byte per call (the alphabet includes an undefined header terminated by CR LF); two streams of 506 / 762 bytes (the alphabet in rotation) in input buffers of 1024 and 66000 bytes: all at once, every single cut, every uniform chunk size; plus the zero-length-call clause on every prefix; static-heap build: the streams of <= 2 messages and every stream of <= 5 messages over {10-character undefined header, 8-character undefined header, SYST:ERR?, 4-character undefined header} with a 24-byte info heap (texts stored, released, wrapping); non-trivial = every schedule run (each is compared with the reference schedule)',
          'thorough': 'streams of 1..4 messages in both builds, heap streams of <= 6 messages'},
    assumptions=['return values of the individual SCPI_Input calls are not compared (they are per call, not per message)',
                 'known finding: a line terminator inside a quoted string is acted on when the chunk boundary falls inside the string (known_findings.txt)'],
    level_text='Exhaustive over all segmentations up to 2 cut points (all segmentations for short streams) of every stream in the stated set.',
    level_note='differential oracle: observable trace, output, drained error queue and unconsumed remainder must be identical',
    design_ref='DESIGN.md section 3 / C08')

reg('C14',
    title='integer-to-text conversion is exact for every value, base and buffer size',
    src='c14_inttostr.c',
    configs={'quick': ['def', 'def+fast'], 'thorough': ['def', 'c90', 'def+fast']},
    deadline={'quick': 400, 'thorough': 2500},
    level=MC,
    technique='exhaustive enumeration of the 32-bit value space (thorough; one value per 64-value stratum in quick) and of a structured 64-bit set x bases x signedness x every buffer length 0..70 on the real formatter, compared with an independent formatter',
    rule={'quick': 'sanitised: values m*2^s (m < 512, s step 3) and complements, powers of each base +-2, extremes, for 32 and 64 bit x 10 base arguments x signed/unsigned with a roomy buffer through the private and the public functions, then a boundary set x 5 bases x every buffer length 0..70 (canaries + exact-size heap block); unsanitised: 2^26 32-bit values (one per 64-value stratum) x 4 bases x signed/unsigned; non-trivial = every value case (each is compared digit by digit with the reference)',
          'thorough': 'unsanitised: ALL 2^32 values x 4 bases x signed/unsigned; sanitised: m < 4096 with every shift'},
    assumptions=['64-bit values are covered by a structured set only (2^64 cannot be enumerated)'],
    level_text='Exhaustive over all 2^32 32-bit values (thorough) for digits and return value, and over every buffer length 0..70 for the truncation rule.',
    level_note='UInt32ToStrBaseSign / UInt64ToStrBaseSign are private functions called by name; the public wrappers are covered by the same loops',
    design_ref='DESIGN.md section 3 / C14')

reg('C15',
    title='no formatting or copying API writes past the buffer the caller gave it',
    src='c15_bounds.c',
    configs={'quick': ['def', 'dtostre', 'c90'], 'thorough': ['def', 'dtostre', 'heap', 'c90']},
    deadline={'quick': 400, 'thorough': 600},
    level=MC,
    technique='complete enumeration of a finite product (buffer length x value x function x flags/precision) on the real formatting and copying functions with exact-size heap buffers under ASan',
    rule='buffer lengths 0..40 x { SCPI_NumberToStr: 12 values incl. NaN/inf x every base unit of the exported table and no unit, every special-number tag incl. an unknown one; SCPI_FloatToStr / SCPI_DoubleToStr: the same values; SCPI_dtostre: the same values x flags 0..7 x precision 0..20; the four integer formatters: 11 boundary values x 4 bases }, and SCPI_ParamCopyText on quoted texts of length 0..12 with 0..3 doubled quotes at every position, both quote characters, buffer lengths 0..16; builds with printf and with the built-in formatter; non-trivial = call whose post-conditions (length, termination) were evaluated',
    assumptions=['precision of SCPI_dtostre limited to 0..20 (its internal buffer is 32 bytes; larger precisions are outside the statement)'],
    level_text='The stated product is enumerated completely; every access outside the caller buffer traps under ASan, and termination / returned length are checked on every call.',
    level_note='quick = thorough for the default and built-in-formatter builds; thorough adds the static-heap build',
    design_ref='DESIGN.md section 3 / C15')

reg('C17',
    title='binary results are valid definite-length blocks in the requested byte order',
    src='c17_blocks.c',
    configs={'quick': ['def', 'c90'], 'thorough': ['def', 'c90']},
    deadline={'quick': 400, 'thorough': 900},
    level=MC,
    technique='bounded-exhaustive enumeration of result calls (element type x count x format x pattern; block lengths; every short header/data call script) inside a real query handler (ASan), byte-exact comparison with an independent block encoder',
    rule={'quick': 'arrays: 10 element types x every count 0..300 x {NORMAL, SWAPPED} x 4 value patterns (+ uint16[40000], int64[9000]) each followed by SCPI_ResultInt32; every type / format and the block with (NULL, 0); SCPI_ResultArbitraryBlock of every length 0..1100 x 3 byte patterns and 65535 / 65536 / 70000 bytes, one-shot and streamed; header-only calls for 10^k-1, 10^k, 10^k+1 (k <= 8) and 999999999; every sane script of <= 5 calls over {Header(0,1,2,4), Data(0..3), one-shot Block(2), one-element array NORMAL/SWAPPED} incl. over-length data, stray data behind a complete block and abandoned blocks; non-trivial = case whose output matched the encoder byte for byte and whose refusals were counted',
          'thorough': 'counts 0..2000, scripts of <= 6 calls'},
    assumptions=['little-endian host (the only one available): NORMAL exercises the swapping path, SWAPPED the native path',
                 'zero-length data without an open block is handler misuse and not generated'],
    level_text='Exhaustive over the stated counts, lengths and call scripts: header digits, byte order, refusal of over-length data with -310, and item accounting (comma only after a completed block) are compared for every case.',
    level_note='lengths >= 10^9 are outside the statement',
    design_ref='DESIGN.md section 3 / C17')

reg('C18',
    title='the error query always yields one well-formed, bounded error response',
    src='c18_errquery.c',
    configs={'quick': ['def', 'heap', 'c90'], 'thorough': ['def', 'heap', 'noinfo', 'c90']},
    deadline={'quick': 400, 'thorough': 900},
    level=MC,
    technique='bounded-exhaustive enumeration of (error code, text length, quote placement) on the real SYST:ERR? path (ASan), each response parsed by an independent IEEE 488.2 string reader',
    rule={'quick': 'all 65536 codes without text; for every distinct description length and for a code without table entry: text lengths {0..8} u {B-6..B+6} u {300, 400} (B = text index where the 255-character limit falls) x every placement of 0..3 double quotes inside the windows [0,8) and [B-6,B+6) and of one single quote; malloc build and static-heap build (with and without a heap prefill that makes the text wrap); every history of <= 7 operations over {push a quoted text of 3/7/11/15/19 characters, SYST:ERR?} on a queue of 2 entries (overflow) and heaps of 24/32/40 bytes (wrap-around, exact fit, reuse, roll-back); non-trivial = response that passed the reader (well-formed string, prefix of description;text, <= 255, cut as late as possible)',
          'thorough': 'windows of +-10 around the limit; also the no-info build'},
    assumptions=['for an empty text both "description" and "description;" are accepted (the malloc build stores the empty string, the heap build stores nothing)',
                 'descriptions are taken from the LIST_OF_ERRORS X-macro, independently of SCPI_ErrorTranslate'],
    level_text='Exhaustive over all codes, and over all quote placements around both places where escaping and the 255-character cut interact.',
    level_note='texts longer than 255 are pushed with an explicit length (the automatic length stops at 255)',
    design_ref='DESIGN.md section 3 / C18')

reg('C07',
    title='every value the library formats as a result decodes back to the same value',
    src='c07_roundtrip.c',
    configs={'quick': ['def', 'dtostre', 'def+fast'], 'thorough': ['def', 'dtostre', 'def+fast']},
    deadline={'quick': 400, 'thorough': 2500},
    level=MC,
    technique='bounded-exhaustive round trip through the real code both ways (SCPI_Result* -> captured response -> SCPI_Input -> SCPI_Param*), exhaustive over the 8/16-bit spaces and, at token level, over the 32-bit space',
    rule={'quick': 'through SCPI_Input (ASan): all 2^8 and 2^16 values of the 8/16-bit types in bases 2/8/10/16; 32/64-bit values m*2^s (m < 256) and complements and powers of each base +-2; booleans; every string of length <= 5 over {a " \' ; NL , blank DEL} and strings of 7..300 characters x 4 fills; blocks of every length 0..1100 x 8 byte patterns (two without a power-of-two period); 14 decimal mantissas x every exponent -323..308 x sign and every power of two (+ predecessor) as double and float; ASCII arrays of 0..5 elements of 6 types and Int32 arrays of 254..1000 elements; a block (one-shot, and streamed in pieces of 1/3/7/64 bytes) followed by further items; every integer, float and double response is decoded a second time with SCPI_Parameter + SCPI_ParamToXxx and must give the same value. Token level (-O2): one value per 64-value stratum of the 32-bit space x {Int32, UInt32 base 2/8/10/16}; non-trivial = round trip whose decoded value was compared',
          'thorough': 'strings of length <= 6, m < 4096, ALL 2^32 values at token level, floats/doubles also with the built-in formatter'},
    assumptions=['floats/doubles: decoded value within half a unit of the last emitted digit (one unit with the built-in formatter), computed in double arithmetic with 1e-9 slack',
                 '64-bit integers, floats and doubles are covered by structured sets only'],
    level_text='Exhaustive over the 8/16-bit integer spaces, short strings and block lengths through the full input path, and over all 2^32 32-bit values at token level (thorough).',
    level_note='the token-level sweep calls private lexer functions by name',
    design_ref='DESIGN.md section 3 / C07')

reg('C16',
    title='floating-point text keeps the promised number of significant digits',
    src='c16_floattext.c', py='py_c16.py',
    configs={'quick': ['def', 'dtostre'], 'thorough': ['def', 'dtostre']},
    deadline={'quick': 400, 'thorough': 2000},
    level=MC,
    technique='complete enumeration of a structured finite value set x every decimal exponent x every precision on the real formatters, compared with Python\'s independent correctly rounded dtoa (printf build) and checked in exact rational arithmetic (built-in formatter)',
    rule={'quick': 'values: decimal mantissas of 1..4 digits over {0,1,4,5,9} (the 3- and 4-digit ones on every 4th exponent) and 16 rounding-boundary mantissas (d.ddd5 at the 15th / 6th digit) with both neighbouring doubles, x every decimal exponent -323..308, all powers of two with both neighbours, subnormals, extremes, both signs; doubles and the float32 roundings of the same literals. printf build: exact string comparison with %.15g / %.6g for SCPI_DoubleToStr, SCPI_FloatToStr, SCPI_ResultDouble, SCPI_ResultFloat; the same text must come out of an exactly fitting buffer (strlen + 1 bytes) and of SCPI_NumberToStr without and with a unit. Built-in build: SCPI_dtostre at precisions 1, 6, 15 (every 4th value: all 1..15) checked exactly; non-trivial = value whose text was compared / record checked',
          'thorough': 'mantissas of 1..5 digits on every exponent; every precision 1..15 for every value'},
    assumptions=['Python\'s float formatting (David Gay dtoa) is correctly rounded and independent of glibc printf',
                 'doubles are covered by a structured set, not exhaustively'],
    level_text='The structured value set is enumerated completely; every emitted text is compared with ground truth computed outside the C library.',
    level_note='known finding for the built-in formatter at large decimal exponents, see known_findings.txt',
    design_ref='DESIGN.md section 3 / C16')

reg('C04',
    title='numeric parameters decode to the value their literal denotes',
    src='c04_numeric.c', py='py_c04.py',
    configs={'quick': ['def', 'c90'], 'thorough': ['def', 'c90']},
    deadline={'quick': 400, 'thorough': 2000},
    level=MC,
    technique='complete enumeration of a grammar-derived finite literal set executed through SCPI_Input on the real readers (ASan), compared bit for bit with results computed in exact rational arithmetic (Python Fractions)',
    rule={'quick': 'decimal literals: sign {none,+,-} x integer and fraction parts (digit strings of length 0..2 over {0,1,5,9}, with and without point) x exponent {none} u ({none, blank, 2 blanks, tab} x {E,e} x {none, blank} x {none,+,-} x 12 exponent digit strings up to 323), ~0.8 M literals; long mantissas of every length 1..25 x 6 fills x point positions x 8 exponents; rounding traps (2^53+1, 2^24+1, half-subnormals, overflow boundaries); integer literals around every type limit; nondecimal: every #H/#Q/#B literal of <= 4 digits (#B <= 10) and every length up to 64 bits x 5 fills; each through SCPI_ParamDouble/Float/Number and (integer literals, nondecimal) the four integer readers, and a second time through SCPI_Parameter followed by the SCPI_ParamToXxx twin of each reader. Plus every unit-table row x every letter-case combination x {0,1,2} blanks x 8 literals (four with blanks or a tab at the exponent mark), golden multipliers of IEEE 488.2 table 7-2, a golden copy of the whole unit table (name, unit, multiplier; mc/golden_units.h) and of the special mnemonics so that the library tables are not their own oracle, and every special mnemonic (short/long) in every letter case; non-trivial = literal whose every decoded value matched the exact expectation',
          'thorough': 'integer/fraction digit strings of length 0..3 (about 37 M decimal literals), full hex digit set'},
    assumptions=['expected binary64/binary32 values are the correctly rounded (ties-to-even, gradual underflow, overflow to infinity) values of the exact decimal literal with blanks removed',
                 'nondecimal literals wider than the reader type, and non-integer literals handed to integer readers, are outside the statement'],
    level_text='The grammar-derived literal set is enumerated completely and every decoded bit pattern is compared with ground truth computed outside the C library.',
    level_note='rounding routine self-tested against Python float() (python3 mc/py_c04.py)',
    design_ref='DESIGN.md section 3 / C04')

reg('C01',
    title='no out-of-bounds access, undefined behaviour or hang on any input stream',
    src='c01_memsafe.c',
    configs={'quick': ['def', 'heap', 'dtostre'], 'thorough': ['def', 'noinfo', 'heap', 'dtostre', 'c90']},
    deadline={'quick': 400, 'thorough': 3000},
    level=MC,
    technique='bounded-exhaustive enumeration of input byte strings x input-buffer sizes x segmentations x residues, executed on the real library under ASan + UBSan with exact-size heap blocks and a tail-poisoned input buffer',
    rule={'quick': 'D1: every byte string of length <= 4 over 28 bytes (one per character class incl. NUL, 0x80, 0xFF) x every input-buffer size 2..len+2 x {whole, every single split point, one byte per call} + zero-length flush x {fresh context, 6 residues}, omnivore handlers applying every SCPI_ParamTo*/Expr*/Result*/ToStr API to every token; D2: "A <p> NL" for every p of length <= 4 over 20 bytes through the omnivore and each of 18 typed readers (two deliveries); D3: every D1 string NUL-terminated to SCPI_Parse; D4: every history of <= 4 messages over 9 steps (undefined headers of length 1..6, SYST:ERR?, *CLS) on one context, info heap sizes 5..12; D5: "A " + every string of length <= 5 over 11 token-forming bytes in exactly fitting buffers; D6: "A <token> NL" for every token length 1..400 of 10 token shapes (digits, digits with blank exponent, fraction with unit, mnemonic with digits and underscores, quoted string with doubled quotes, block with embedded NL, channel list, nondecimal, suffix program data, comma list) through the omnivore and 8 typed readers in exactly fitting buffers; D7: 12312 decimal literals that round up at the 6th / 15th digit when echoed (runs of 0..18 nines / 1000..0 / 1999..9, point at three places, six closing digit strings, six exponents, both signs) through the omnivore and the float/double/number/array readers; D9: error queues of 127..300 entries filled to overflow by undefined headers and read back, messages of 255..70000 bytes (units of 6 bytes) streamed in 1000-byte chunks, flushed, and handed to SCPI_Parse as one line; D8: every single-byte substitution and insertion (all 256 byte values) at every position of 16 well-formed messages that together use every token kind, whole into an exactly fitting buffer and split at the mutated byte into a 9-byte buffer; error ring of 2 entries; default and static-heap (9-byte heap) builds, and the built-in-dtostre build with D1/D2 shortened (it differs only in result formatting); non-trivial = (string, buffer size) case that reached a handler',
          'thorough': 'D1 additionally every string of length 5 (three buffer sizes; whole, one split, one byte per call; fresh context), D2/D5 one byte longer, all four build configurations'},
    assumptions=['in D1-D5 bytes are represented by character class (28 representatives); all 256 values appear in D8 (one mutated byte per message) and in the C13 sweep',
                 'memory safety is judged by ASan/UBSan on this x86-64 build; uninitialised reads are not detected (no MSan run)'],
    level_text='Exhaustive over all short streams, all buffer sizes that can make any token end at or beyond the end of the buffer, all single-split segmentations and histories with six kinds of pending input; any sanitizer report, hang or out-of-range buffer position is a violation.',
    level_note='the SCPI_PARSER_VERIF hook makes reads of stale bytes behind the logical end of input trap',
    design_ref='DESIGN.md section 3 / C01')
