/* c03_pattern.c - C03: a pattern accepts exactly the headers of its short/long-form language, and
 * reports numeric suffixes in keyword order with the caller's default for suffixes left out or skipped.
 * Bounded-exhaustive:
 *   patterns = every pattern of 1..4 keywords taken in order from {ABcd, EFgh, IJ, KLMno}, each keyword
 *              independently optional and/or numeric, with/without '?', plus common patterns and the
 *              patterns shipped in the repository's tests and examples;
 *   headers  = (A) every sequence of <= N mnemonics over {short, long, long-letter, short+"1"} of every
 *              keyword of the pattern and an alien mnemonic, x leading colon x '?' x letter case;
 *              (B) every "skeleton" (any subset of the keywords in order, one alien inserted anywhere, one
 *              adjacent pair swapped) spelled with every combination of 8 forms per mnemonic (short, long,
 *              long-letter, short+"1", long+letter, short+letter, long+"012", long+"7") x colon x '?' x 3 cases.
 *              (C) every numeric-suffix keyword of a correctly spelled header followed by each of 27 suffix texts (leading
 *              zeros, digits 8/9, sign, blank, tab, letter, radix prefix, exponent);
 *   a second vocabulary {SYNChronization, W3GPp, RX_Level, IEEE488, W, RX}: all singles and ordered pairs in 6 shapes.
 * Oracle = ref_pattern.h.  Compared: matchCommand (numbers array pre-filled with a sentinel), SCPI_Match,
 * and, for (B), the public path SCPI_Input -> handler -> SCPI_CommandNumbers / SCPI_IsCmd / -113.
 */
#include "scpi/scpi.h"
#include "utils_private.h"
#include "mc.h"
#include "ref_pattern.h"

static const char * vocab[4] = {"ABcd", "EFgh", "IJ", "KLMno"};

static unsigned long long n_calls = 0, n_accept = 0, n_reject = 0, n_api = 0, n_api_accept = 0, n_numbers = 0;
#define SENT 0x5a5a5a5a
#define DEFV (-424242)      /* a default that does not fit 16 bits */

/* ---- public API path ---------------------------------------------------------------------------------- */
static scpi_t ctx;
static char * ibuf;                      /* exact size, reallocated per message */
static scpi_error_t ering[80];
static int errs[8], nerrs, handler_runs;
static int32_t h_nums[RP_MAXKW + 1];
static scpi_bool_t h_iscmd, h_cn;
static char h_hdr[128]; static size_t h_hdrlen;
static const char * cur_pattern;
static const rp_pattern_t * cur_rp;
static int h_isbad, h_isgot; static char h_isprobe[160];
static size_t if_write(scpi_t * c, const char * d, size_t n) { (void) c; (void) d; return n; }
static int if_error(scpi_t * c, int_fast16_t e) { (void) c; if (nerrs < 8) errs[nerrs++] = (int) e; return 0; }
static scpi_interface_t itf = { if_error, if_write, NULL, NULL, NULL };
static scpi_result_t handler(scpi_t * c) {
    int i;
    handler_runs++;
    for (i = 0; i <= RP_MAXKW; i++) h_nums[i] = SENT;
    h_cn = SCPI_CommandNumbers(c, h_nums, RP_MAXKW, DEFV);
    h_hdrlen = c->param_list.cmd_raw.length < sizeof h_hdr ? c->param_list.cmd_raw.length : sizeof h_hdr - 1;
    memcpy(h_hdr, c->param_list.cmd_raw.data, h_hdrlen);
    h_iscmd = SCPI_CmdTag(c) == 4711;
    {   /* SCPI_IsCmd: "would this header select the running entry?" for spellings other than the received one */
        char pr[6][160];
        int n[6], i2;
        long tmp[RP_MAXKW];
        n[0] = rp_probe(cur_rp, 0, pr[0]);
        n[1] = rp_probe(cur_rp, 1, pr[1]);
        n[2] = sprintf(pr[2], "%sX", pr[0]);
        n[3] = sprintf(pr[3], ":%s", pr[0]);
        n[4] = sprintf(pr[4], "ZZ");
        n[5] = (int) h_hdrlen; memcpy(pr[5], h_hdr, h_hdrlen); pr[5][h_hdrlen] = 0;
        h_isbad = -1;
        for (i2 = 0; i2 < 6; i2++) {
            int want = rp_match(cur_rp, pr[i2], n[i2], tmp, DEFV);
            scpi_bool_t got = SCPI_IsCmd(c, pr[i2]);
            if ((got ? 1 : 0) != want && h_isbad < 0) { h_isbad = i2; h_isgot = got ? 1 : 0; snprintf(h_isprobe, sizeof h_isprobe, "%s", pr[i2]); }
        }
    }
    return SCPI_RES_OK;
}
static scpi_command_t table[3];

static void check_header(const rp_pattern_t * rp, const char * pattern, const char * h, int hl, int via_api) {
    long rn[RP_MAXKW];
    int32_t nums[RP_MAXKW + 2];
    int acc = rp_match(rp, h, hl, rn, DEFV), nnum = rp_count_numeric(rp), i;
    /* exact size + the terminator the library always has behind a header (the input buffer is NUL
     * terminated; numeric suffixes are read with strtol) */
    char * hb = (char *) malloc((size_t) hl + 1);
    scpi_bool_t r1, r2, r3;
    const char * why = NULL;
    memcpy(hb, h, (size_t) hl); hb[hl] = 0;
    for (i = 0; i < RP_MAXKW + 2; i++) nums[i] = SENT;
    r1 = matchCommand(pattern, hb, (size_t) hl, nums, RP_MAXKW, DEFV);
    r2 = matchCommand(pattern, hb, (size_t) hl, NULL, 0, 0);
    r3 = SCPI_Match(pattern, hb, (size_t) hl);
    n_calls += 3;
    if ((r1 ? 1 : 0) != acc) why = acc ? "valid-header-rejected" : "invalid-header-accepted";
    else if ((r2 ? 1 : 0) != acc) why = acc ? "valid-header-rejected/no-numbers" : "invalid-header-accepted/no-numbers";
    else if ((r3 ? 1 : 0) != acc) why = "SCPI_Match-differs";
    else if (acc) {
        for (i = 0; i < nnum; i++) if (nums[i] != (int32_t) rn[i]) { why = nums[i] == (int32_t) SENT ? "suffix-not-reported" : "suffix-value"; break; }
        /* slots behind the last numeric keyword but inside the announced length are the caller's scratch space (the statement says nothing about
         * them); slots behind the announced length must not be touched */
        if (!why) for (i = RP_MAXKW; i < RP_MAXKW + 2; i++) if (nums[i] != (int32_t) SENT) { why = "suffix-slot-beyond-array-length-written"; break; }
        n_numbers += (unsigned long long) nnum;
    }
    /* a caller may ask for fewer suffixes than the pattern has: exact-size arrays of every shorter length
     * (ASan traps a store behind them), the slots that exist must still be right */
    if (!why && acc && nnum > 0) {
        int nl;
        for (nl = 0; nl < nnum && !why; nl++) {
            int32_t * shortarr = (int32_t *) malloc(sizeof (int32_t) * (size_t) nl);
            for (i = 0; i < nl; i++) shortarr[i] = SENT;
            if (!matchCommand(pattern, hb, (size_t) hl, shortarr, (size_t) nl, DEFV)) why = "valid-header-rejected/short-numbers-array";
            else for (i = 0; i < nl; i++) if (shortarr[i] != (int32_t) rn[i]) { why = "suffix-value/short-numbers-array"; break; }
            n_calls++;
            free(shortarr);
        }
    }
    free(hb);
    if (why) {
        char sig[96];
        snprintf(sig, sizeof sig, "c03/%s", why);
        mc_viol(sig, "pattern [%s] header [%s]: matchCommand=%d (no numbers %d, SCPI_Match %d) numbers={%d,%d,%d,%d}; reference accept=%d numbers={%ld,%ld,%ld,%ld} (default %d)",
                pattern, mc_e(h, (size_t) hl), (int) r1, (int) r2, (int) r3, nums[0], nums[1], nums[2], nums[3], acc, rn[0], rn[1], rn[2], rn[3], DEFV);
        return;
    }
    if (acc) n_accept++; else n_reject++;
    mc_outcome(mc_hash(rn, sizeof (long) * (size_t) (nnum ? nnum : 1), (uint64_t) acc * 31 + (uint64_t) nnum));

    if (via_api) {
        size_t ml = (size_t) hl + 1;
        char * msg = (char *) malloc(ml);
        memcpy(msg, h, (size_t) hl); msg[hl] = '\n';
        free(ibuf);
        ibuf = (char *) malloc(ml + 1);
        ctx.buffer.data = ibuf; ctx.buffer.length = ml + 1; ctx.buffer.position = 0;
        nerrs = 0; handler_runs = 0; cur_pattern = pattern; cur_rp = rp; h_isbad = -1;
        SCPI_Input(&ctx, msg, (int) ml);
        n_api++;
        free(msg);
        if (acc) {
            n_api_accept++;
            if (handler_runs != 1) why = "api/handler-not-run-once";
            else if (nerrs) why = "api/error-for-valid-header";
            else if (!h_cn) why = "api/SCPI_CommandNumbers-false";
            else if (!h_iscmd) why = "api/wrong-entry";
            else if (h_isbad >= 0) { why = "api/SCPI_IsCmd"; mc_viol("c03/api/SCPI_IsCmd", "pattern [%s] running for header [%s]: SCPI_IsCmd(\"%s\") = %d, reference %d", pattern, mc_e(h, (size_t) hl), h_isprobe, h_isgot, !h_isgot); why = NULL; }
            else {
                for (i = 0; i < nnum; i++) if (h_nums[i] != (int32_t) rn[i]) { why = "api/suffix-value"; break; }
                if (!why && h_nums[RP_MAXKW] != (int32_t) SENT) why = "api/suffix-slot-beyond-array-length-written";
            }
        } else {
            if (handler_runs) why = "api/handler-run-for-invalid-header";
            else if (nerrs != 1 || errs[0] != SCPI_ERROR_UNDEFINED_HEADER) why = "api/no-single-113";
        }
        /* the same header as the SECOND unit of a compound message, its path inherited from the first unit:
         * "<header>;<last mnemonic>" - suffixes of the inherited keywords must be reported as well */
        if (!why && acc && hl < 100) {
            int lastc = -1, q = (hl > 0 && h[hl - 1] == '?');
            for (i = 0; i < hl; i++) if (h[i] == ':') lastc = i;
            if (lastc > 0) {
                char m2[300];
                size_t l2 = 0;
                memcpy(m2, h, (size_t) hl); l2 = (size_t) hl; m2[l2++] = ';';
                memcpy(m2 + l2, h + lastc + 1, (size_t) (hl - lastc - 1)); l2 += (size_t) (hl - lastc - 1);
                m2[l2++] = '\n';
                (void) q;
                free(ibuf); ibuf = (char *) malloc(l2 + 1);
                ctx.buffer.data = ibuf; ctx.buffer.length = l2 + 1; ctx.buffer.position = 0;
                nerrs = 0; handler_runs = 0;
                SCPI_Input(&ctx, m2, (int) l2);
                n_api++;
                if (handler_runs != 2 || nerrs) why = "api/compound-second-unit-not-run";
                else if (!h_cn) why = "api/compound-second-unit/SCPI_CommandNumbers-false";
                else for (i = 0; i < nnum; i++) if (h_nums[i] != (int32_t) rn[i]) { why = "api/compound-second-unit/suffix-value"; break; }
                if (why) {
                    char sig[96];
                    snprintf(sig, sizeof sig, "c03/%s", why);
                    mc_viol(sig, "pattern [%s] message [%s]: handler runs=%d errors=%d numbers of the second unit={%d,%d,%d,%d}; reference numbers={%ld,%ld,%ld,%ld}", pattern, mc_e(m2, l2), handler_runs, nerrs, h_nums[0], h_nums[1], h_nums[2], h_nums[3], rn[0], rn[1], rn[2], rn[3]);
                    why = NULL;
                }
            }
        }
        { static unsigned long long last_clear = 0; if (n_api - last_clear >= 16) { SCPI_ErrorClear(&ctx); last_clear = n_api; } }
        if (why) {
            char sig[96];
            snprintf(sig, sizeof sig, "c03/%s", why);
            mc_viol(sig, "pattern [%s] message [%s\\n]: handler runs=%d errors=%d first=%d numbers={%d,%d,%d,%d}; reference accept=%d numbers={%ld,%ld,%ld,%ld}",
                    pattern, mc_e(h, (size_t) hl), handler_runs, nerrs, nerrs ? errs[0] : 0, h_nums[0], h_nums[1], h_nums[2], h_nums[3], acc, rn[0], rn[1], rn[2], rn[3]);
        }
    }
}

/* ---- header generators ------------------------------------------------------------------------------- */
static void apply_case(char * s, int n, int mode) {
    int i;
    for (i = 0; i < n; i++) {
        if (mode == 0) s[i] = (char) toupper((unsigned char) s[i]);
        else if (mode == 1) s[i] = (char) tolower((unsigned char) s[i]);
        else s[i] = (char) ((i & 1) ? toupper((unsigned char) s[i]) : tolower((unsigned char) s[i]));
    }
}

static int make_form(char * out, const rp_kw_t * k, int form) {
    /* 0 short, 1 long, 2 long-letter, 3 short+"1", 4 long+letter, 5 short+letter, 6 long+"012", 7 long+"7" */
    int n;
    switch (form) {
        case 0: memcpy(out, k->name, (size_t) k->slen); n = k->slen; break;
        case 1: memcpy(out, k->name, (size_t) k->llen); n = k->llen; break;
        case 2: n = k->llen - 1; if (n < 1) n = 1; memcpy(out, k->name, (size_t) n); break;
        case 3: memcpy(out, k->name, (size_t) k->slen); out[k->slen] = '1'; n = k->slen + 1; break;
        case 4: memcpy(out, k->name, (size_t) k->llen); out[k->llen] = 'x'; n = k->llen + 1; break;
        case 5: memcpy(out, k->name, (size_t) k->slen); out[k->slen] = (k->slen < k->llen) ? k->name[k->slen] : 'q'; n = k->slen + 1; break;
        case 6: memcpy(out, k->name, (size_t) k->llen); memcpy(out + k->llen, "012", 3); n = k->llen + 3; break;
        default: memcpy(out, k->name, (size_t) k->llen); out[k->llen] = '7'; n = k->llen + 1; break;
    }
    return n;
}

/* (A) product enumeration */
static void enum_product(const rp_pattern_t * rp, const char * pattern, int maxm, int api) {
    char sym[RP_MAXKW * 4 + 1][48];
    int symlen[RP_MAXKW * 4 + 1], nsym = 0, k, f, m, i, idx[8];
    char h[256];
    for (k = 0; k < rp->nkw; k++) for (f = 0; f < 4; f++) { symlen[nsym] = make_form(sym[nsym], &rp->kw[k], f); nsym++; }
    memcpy(sym[nsym], "ZZ", 2); symlen[nsym++] = 2;
    for (m = 1; m <= maxm; m++) {
        for (i = 0; i < m; i++) idx[i] = 0;
        for (;;) {
            int flags;
            for (flags = 0; flags < 8; flags++) {
                int o = 0;
                if (!MC_CASE()) continue;
                if (flags & 1) h[o++] = ':';
                for (i = 0; i < m; i++) { if (i) h[o++] = ':'; memcpy(h + o, sym[idx[i]], (size_t) symlen[idx[i]]); o += symlen[idx[i]]; }
                apply_case(h, o, (flags >> 2) & 1);
                if (flags & 2) h[o++] = '?';
                mc_case_tag = "product"; mc_case_s[0] = (const unsigned char *) pattern; mc_case_n[0] = strlen(pattern); mc_case_s[1] = (const unsigned char *) h; mc_case_n[1] = (size_t) o;
                check_header(rp, pattern, h, o, api);
            }
            for (i = m - 1; i >= 0; i--) { if (++idx[i] < nsym) break; idx[i] = 0; }
            if (i < 0) break;
        }
    }
}

/* (B) skeleton enumeration */
static void enum_skeleton(const rp_pattern_t * rp, const char * pattern, int nforms, int maxn, int api) {
    int sub, ins, sw;
    rp_kw_t alien;
    memset(&alien, 0, sizeof alien); strcpy(alien.name, "ZZ"); alien.llen = alien.slen = 2;
    for (sub = 0; sub < (1 << rp->nkw); sub++) {
        for (ins = -1; ins <= rp->nkw; ins++) {
            for (sw = -1; sw < rp->nkw - 1; sw++) {
                const rp_kw_t * seq[RP_MAXKW + 2];
                int n = 0, k, i, fidx[8];
                if (ins >= 0 && sw >= 0) continue;           /* one deviation at a time */
                for (k = 0; k < rp->nkw; k++) {
                    if (ins == k) seq[n++] = &alien;
                    if (sub & (1 << k)) seq[n++] = &rp->kw[k];
                }
                if (ins == rp->nkw) seq[n++] = &alien;
                if (sw >= 0) { if (sw + 1 >= n) continue; { const rp_kw_t * t = seq[sw]; seq[sw] = seq[sw + 1]; seq[sw + 1] = t; } }
                if (n == 0 || n > maxn) continue;
                for (i = 0; i < n; i++) fidx[i] = 0;
                for (;;) {
                    int flags;
                    for (flags = 0; flags < 12; flags++) {
                        char h[256];
                        int o = 0;
                        if (!MC_CASE()) continue;
                        if (flags & 1) h[o++] = ':';
                        for (i = 0; i < n; i++) { if (i) h[o++] = ':'; o += make_form(h + o, seq[i], fidx[i]); }
                        apply_case(h, o, flags >> 2);
                        if (flags & 2) h[o++] = '?';
                        mc_case_tag = "skeleton"; mc_case_s[0] = (const unsigned char *) pattern; mc_case_n[0] = strlen(pattern); mc_case_s[1] = (const unsigned char *) h; mc_case_n[1] = (size_t) o;
                        check_header(rp, pattern, h, o, api);
                    }
                    for (i = n - 1; i >= 0; i--) { if (++fidx[i] < nforms) break; fidx[i] = 0; }
                    if (i < 0) break;
                }
            }
        }
    }
}

/* (C) suffix texts: the header spells every keyword of the pattern correctly (target keyword short and long, the others short),
 * and the target numeric-suffix keyword is followed by each of these texts: digit strings with leading zeros and with the digits
 * 8 and 9 (decimal, not octal), and texts that are not digit strings (sign, blank, tab, letter, radix prefix, exponent) */
static const char * suffix_texts[] = {"0", "00", "08", "09", "010", "0019", "007", "0100", "10", "2147483647", "00000000007", "0000000000000", "0000000000042", "000002147483647", "+5", "-5", " 5", "\t5", "5 ", "5+", "5a", "a5", "0x10", "1e2", "5.", "#5", "_5"};
#define NSUFFIX ((int) (sizeof suffix_texts / sizeof suffix_texts[0]))
static void enum_suffix(const rp_pattern_t * rp, const char * pattern, int api) {
    int j, lf, si, flags, k;
    for (j = 0; j < rp->nkw; j++) {
        if (!rp->kw[j].numeric) continue;
        for (lf = 0; lf < 2; lf++) for (si = 0; si < NSUFFIX; si++) for (flags = 0; flags < 12; flags++) {
            char h[256];
            int o = 0, digits_only = 1;
            const char * t = suffix_texts[si];
            if (!MC_CASE()) continue;
            for (k = 0; t[k]; k++) if (!isdigit((unsigned char) t[k])) digits_only = 0;
            if (flags & 1) h[o++] = ':';
            for (k = 0; k < rp->nkw; k++) {
                if (k) h[o++] = ':';
                o += make_form(h + o, &rp->kw[k], (k == j && lf) ? 1 : 0);
                if (k == j) { memcpy(h + o, t, strlen(t)); o += (int) strlen(t); }
            }
            apply_case(h, o, flags >> 2);
            if (flags & 2) h[o++] = '?';
            mc_case_tag = "suffix-text"; mc_case_s[0] = (const unsigned char *) pattern; mc_case_n[0] = strlen(pattern); mc_case_s[1] = (const unsigned char *) h; mc_case_n[1] = (size_t) o;
            check_header(rp, pattern, h, o, api && digits_only);
        }
    }
}

/* second vocabulary: a keyword longer than 12 characters, short forms that hold a digit or an underscore, keywords without
 * lower case part, keywords that are a prefix of another keyword */
static const char * vocab2[6] = {"SYNChronization", "W3GPp", "RX_Level", "IEEE488", "W", "RX"};

static const char * shipped[] = {
    "*CLS", "*ESE", "*ESE?", "*ESR?", "*IDN?", "*OPC", "*OPC?", "*RST", "*SRE", "*SRE?", "*STB?", "*TST?", "*WAI",
    "SYSTem:ERRor[:NEXT]?", "SYSTem:ERRor:COUNt?", "SYSTem:VERSion?",
    "STATus:QUEStionable[:EVENt]?", "STATus:QUEStionable:ENABle", "STATus:QUEStionable:ENABle?", "STATus:PRESet",
    "MEASure:VOLTage:DC?", "CONFigure:VOLTage:DC", "MEASure:VOLTage:DC:RATio?", "MEASure:VOLTage:AC?", "MEASure:CURRent:DC?",
    "MEASure:RESistance?", "MEASure:FRESistance?", "MEASure:FREQuency?", "MEASure:PERiod?",
    "SYSTem:COMMunication:TCPIP:CONTROL?", "TEST:BOOL", "TEST:CHOice?", "TEST#:NUMbers#", "TEST:TEXT", "TEST:ARBitrary?", "TEST:CHANnellist",
    "[:SENSe]:RANGe[:UPPer]?", "OUTPut#[:MODulation#][:FM#]", "[:ABcd]:TEST[:SUB#]", "TEXTfunction?", "STUB", "STUB?", "SAMple", "SAMple?",
};
#define NSHIPPED ((int) (sizeof shipped / sizeof shipped[0]))

static void run_pattern(const char * pattern, int maxm, int nforms, int api) {
    rp_pattern_t rp = rp_parse(pattern);
    if (!rp.ok) { mc_viol("c03/harness-pattern-not-parsed", "pattern [%s]", pattern); return; }
    table[0].pattern = pattern; table[0].callback = handler; table[0].tag = 4711;
    table[1].pattern = NULL; table[1].callback = NULL; table[1].tag = 0;
    if (rp.common) {
        /* exact mnemonic and near misses */
        char h[64];
        int flags, v;
        for (v = 0; v < 6; v++) for (flags = 0; flags < 12; flags++) {
            int o = 0;
            if (!MC_CASE()) continue;
            if (flags & 1) h[o++] = ':';
            h[o++] = '*';
            memcpy(h + o, rp.kw[0].name + 1, (size_t) rp.kw[0].llen - 1); o += rp.kw[0].llen - 1;
            if (v == 1) o--; else if (v == 2) h[o++] = 'x'; else if (v == 3) h[o++] = '1'; else if (v == 4) { memmove(h + (flags & 1), h + (flags & 1) + 1, (size_t) o); o--; } else if (v == 5) { h[o++] = ':'; h[o++] = 'A'; }
            apply_case(h, o, flags >> 2);
            if (flags & 2) h[o++] = '?';
            if (o <= 0) continue;
            mc_case_tag = "common"; mc_case_s[0] = (const unsigned char *) pattern; mc_case_n[0] = strlen(pattern); mc_case_s[1] = (const unsigned char *) h; mc_case_n[1] = (size_t) o;
            check_header(&rp, pattern, h, o, (v != 4 && v != 5 && !(flags & 1)) ? api : 0);
        }
        return;
    }
    enum_product(&rp, pattern, maxm, 0);
    enum_skeleton(&rp, pattern, nforms, mc_thorough ? 5 : 4, api);
    enum_suffix(&rp, pattern, 1);
}

int main(int argc, char ** argv) {
    int mask, optm, numm, q, i, maxm, nforms, npat = 0;
    char pattern[128];
    mc_init(argc, argv);
    ibuf = (char *) malloc(4);
    SCPI_Init(&ctx, table, &itf, scpi_units_def, "a", "b", "c", "d", ibuf, 4, ering, 80);
    maxm = mc_thorough ? 5 : 3;
    nforms = mc_thorough ? 8 : 5;
    for (mask = 1; mask < 16; mask++) {
        int kws[4], nk = 0, k;
        for (k = 0; k < 4; k++) if (mask & (1 << k)) kws[nk++] = k;
        for (optm = 0; optm < (1 << nk); optm++) for (numm = 0; numm < (1 << nk); numm++) for (q = 0; q < 2; q++) {
            int o = 0;
            for (k = 0; k < nk; k++) {
                int opt = (optm >> k) & 1;
                if (opt) pattern[o++] = '[';
                if (k > 0 || opt) pattern[o++] = ':';
                o += sprintf(pattern + o, "%s%s", vocab[kws[k]], ((numm >> k) & 1) ? "#" : "");
                if (opt) pattern[o++] = ']';
            }
            if (q) pattern[o++] = '?';
            pattern[o] = 0;
            npat++;
            /* 4-keyword patterns: product enumeration one mnemonic shorter in quick (cost) */
            run_pattern(pattern, (nk == 4 && mc_thorough) ? 4 : maxm, nforms, (optm * 5 + numm * 3 + q) % 8 == 0 || mc_thorough);
        }
    }
    for (i = 0; i < NSHIPPED; i++) { run_pattern(shipped[i], 3, nforms, 1); npat++; }
    {   /* second vocabulary: every single keyword and every ordered pair, plain / numeric / optional, with and without '?' */
        int a, b, shape;
        for (a = 0; a < 6; a++) for (b = -1; b < 6; b++) for (shape = 0; shape < 6; shape++) for (q = 0; q < 2; q++) {
            if (b == a) continue;
            if (b < 0) { if (shape > 1) continue; sprintf(pattern, "%s%s%s", vocab2[a], shape ? "#" : "", q ? "?" : ""); }
            else switch (shape) {
                case 0: sprintf(pattern, "%s:%s%s", vocab2[a], vocab2[b], q ? "?" : ""); break;
                case 1: sprintf(pattern, "%s#:%s%s", vocab2[a], vocab2[b], q ? "?" : ""); break;
                case 2: sprintf(pattern, "%s:%s#%s", vocab2[a], vocab2[b], q ? "?" : ""); break;
                case 3: sprintf(pattern, "%s#:%s#%s", vocab2[a], vocab2[b], q ? "?" : ""); break;
                case 4: if (vocab2[a][0] == vocab2[b][0]) continue; sprintf(pattern, "[:%s]:%s%s", vocab2[a], vocab2[b], q ? "?" : ""); break;
                default: if (vocab2[a][0] == vocab2[b][0]) continue; sprintf(pattern, "%s[:%s#]%s", vocab2[a], vocab2[b], q ? "?" : ""); break;
            }
            run_pattern(pattern, 3, nforms, 1); npat++;
        }
    }
    {   /* empty header: nothing to accept, and nothing to read */
        if (MC_CASE()) {
            char * e = (char *) calloc(1, 1);
            mc_case_tag = "empty-header";
            if (matchCommand("ABcd?", e, 0, NULL, 0, 0) || SCPI_Match("[:ABcd]:EFgh", e, 0)) mc_viol("c03/empty-header-accepted", "matchCommand accepted a header of length 0");
            free(e);
        }
    }
    if (mc_shard == 0) {
        mc_sample("pattern [:ABcd]:EFgh#[:IJ#]:KLMno? against header :ab:efgh012:klm? -> accept, numbers {12, default}");
        mc_sample("pattern OUTPut#[:MODulation#][:FM#] against header outp1 -> accept, numbers {1, default, default}");
        mc_sample("pattern ABcd:EFgh against header ABc:EFGH -> reject (neither short nor long form)");
    }
    mc_stat("max_patterns", (unsigned long long) npat);
    mc_stat("impl_calls", n_calls + n_api);
    mc_stat("nontrivial", n_accept);
    mc_stat("headers_accepted", n_accept);
    mc_stat("headers_rejected", n_reject);
    mc_stat("suffixes_compared", n_numbers);
    mc_stat("via_SCPI_Input", n_api);
    mc_stat("via_SCPI_Input_accepted", n_api_accept);
    return mc_finish();
}
