"""py_c16.py - Python side of C16 (floating-point text keeps the promised number of significant digits).

gen():  enumerates the structured value set and writes, for every value, the text Python's own correctly rounded
        dtoa gives for %.15g (double) / %.6g (float) - independent of glibc's printf, which the library uses.
post(): for the build with the library's own formatter, reads the (value, precision, text) records the harness
        wrote and checks each with exact rational arithmetic: the text must be within one unit of the p-th
        significant digit of the value.
"""
import os, struct, itertools, math
from fractions import Fraction
from concurrent.futures import ProcessPoolExecutor

DIGITS = '01459'

def _mantissas(kmax):
    out = []
    for k in range(1, kmax + 1):
        for d1 in '1459':
            if k == 1:
                out.append(d1)
            else:
                for rest in itertools.product(DIGITS, repeat=k - 1):
                    out.append(d1 + '.' + ''.join(rest))
    return out

BOUNDARY = ['1.000000000000005', '1.234567890123455', '9.999999999999995', '4.444444444444445', '2.500000000000005', '9.99999999999999',
            '1.00000000000001', '1.000005', '9.999995', '1.234565', '5.555555', '9.99999', '1.5', '7.00000000000007', '1.79769313486231', '2.22507385850720']

def _values(tier):
    kmax = 5 if tier == 'thorough' else 4
    vals = set()
    mants = _mantissas(kmax)
    estep = 1
    for e in range(-323, 309, estep):
        for m in mants:
            # quick: full mantissa set on every 4th exponent, the 2-digit ones on every exponent
            if tier != 'thorough' and len(m) > 3 and (e % 4) != 0:
                continue
            try:
                v = float('%se%d' % (m, e))
            except (OverflowError, ValueError):
                continue
            if math.isinf(v):
                continue
            vals.add(v)
        for m in BOUNDARY:
            v = float('%se%d' % (m, e))
            if math.isinf(v):
                continue
            vals.add(v); vals.add(math.nextafter(v, 0.0)); vals.add(math.nextafter(v, math.inf))
    for p in range(-1074, 1024):
        v = math.ldexp(1.0, p)
        vals.add(v); vals.add(math.nextafter(v, 0.0))
        if p < 1023:
            vals.add(math.nextafter(v, math.inf))
    vals.update([0.0, 5e-324, 2.2250738585072014e-308, 2.225073858507201e-308, 1.7976931348623157e308, 0.1, 0.3, 123456.5, 1234567.5, 0.0001, 0.00001, 999999.5, 99999.95])
    vals = {v for v in vals if not math.isinf(v)}
    out = sorted(vals)
    return out

def _f32(v):
    try:
        return struct.unpack('<f', struct.pack('<f', v))[0]
    except OverflowError:
        return None

def gen(tier, cfg, bdir, nshards):
    path = os.path.join(bdir, 'c16_cases.txt')
    vals = _values(tier)
    with open(path, 'w') as f:
        for v in vals:
            for s in (v, -v):
                f.write('D %016x %s\n' % (struct.unpack('<Q', struct.pack('<d', s))[0], '%.15g' % s))
                fv = _f32(s)
                if fv is not None and not math.isinf(fv) and (fv != 0.0 or s == 0.0):
                    f.write('F %08x %s\n' % (struct.unpack('<I', struct.pack('<f', fv))[0], '%g' % fv))
        for spec, txts in (('7ff8000000000000', 'nan'), ('fff8000000000000', '-nan'), ('7ff0000000000000', 'inf'), ('fff0000000000000', '-inf')):
            f.write('D %s %s\n' % (spec, txts))
    return path

# ---- exact check of the built-in formatter ---------------------------------------------------------------------

def _pow10_floor(x):
    """largest e with 10**e <= x (x a positive Fraction)"""
    e = int(math.floor(math.log10(float(x)))) if x > 0 else 0
    while Fraction(10) ** e > x:
        e -= 1
    while Fraction(10) ** (e + 1) <= x:
        e += 1
    return e

def _flt(x):
    return float(x) if x < 10 ** 300 else float('inf')

def _check_file(path):
    bad = []
    n = 0
    worst = Fraction(0)
    samples = []
    try:
        fh = open(path)
    except OSError:
        return 0, bad, 0.0, samples
    for line in fh:
        parts = line.rstrip('\n').split(' ', 3)
        if len(parts) < 4 or parts[0] != 'R':
            continue
        try:
            bits, prec, text = int(parts[1], 16), int(parts[2]), parts[3]
        except ValueError:
            continue        # a record cut short by a crash of the harness (the crash itself is reported by the driver)
        v = struct.unpack('<d', struct.pack('<Q', bits))[0]
        n += 1
        if v == 0 or math.isnan(v) or math.isinf(v):
            want = {0.0: ('0', '-0')}.get(abs(v), None)
            if v == 0 and text not in ('0', '-0'):
                bad.append(('c16/builtin-formatter/zero', 'SCPI_dtostre(%r, prec %d) = [%s]' % (v, prec, text)))
            continue
        try:
            t = Fraction(text)
            if abs(t) > Fraction(10) ** 400 or (t != 0 and abs(t) < Fraction(10) ** -400):
                raise ValueError('magnitude')
        except (ValueError, ZeroDivisionError, OverflowError):
            bad.append(('c16/builtin-formatter/unparsable-text', 'SCPI_dtostre(%r, prec %d) = [%s]' % (v, prec, text)))
            continue
        # the promised number of significant digits is also an upper bound: more digits than requested is garbage
        mant = text.lower().split('e')[0].lstrip('+- ').replace('.', '').lstrip('0')
        if len(mant) > prec:
            bad.append(('c16/builtin-formatter/more-digits-than-requested', 'SCPI_dtostre(%r, prec %d) = [%s]: %d significant digits' % (v, prec, text, len(mant))))
            continue
        fv = Fraction(v)
        e = _pow10_floor(abs(fv))
        unit = Fraction(10) ** (e - prec + 1)
        err = abs(t - fv) / unit
        if err > worst:
            worst = err
        # the value is a binary double, not a decimal literal: one binary ulp of slack
        if err > 1 + Fraction(math.ulp(v)) / unit:
            # known finding (inexact digit generation by repeated multiplication / division): on the pinned tree deviations of 1..4 units occur
            # only for decimal exponents <= -20 or >= 63 (profiled over the quick and the thorough value sets); the class is limited to
            # exponents <= -20 or >= 60, a deviation of that size anywhere else is an ordinary violation
            if err > 4:
                kind = 'deviation-above-4-units'
            elif e <= -20 or e >= 60:
                kind = 'deviation-1-to-4-units/decimal-exponent-outside-minus19-to-59'
            else:
                kind = 'deviation-1-to-4-units'
            if os.environ.get('C16_PROFILE'):
                kind += '/e%+04d/p%02d' % (e, prec)
            bad.append(('c16/builtin-formatter/' + kind, 'SCPI_dtostre(%r, prec %d) = [%s]: off by %.3f units of the last requested digit' % (v, prec, text, _flt(err))))
        elif len(samples) < 2 and prec == 15:
            samples.append('SCPI_dtostre(%r, prec 15) = %s (%.3f units off)' % (v, text, _flt(err)))
    return n, bad, _flt(worst), samples

def post(tier, cfg, bdir, nshards):
    if 'dtostre' not in cfg:
        return {}, [], []
    files = [os.path.join(bdir, 'c16_cases.txt.rec.%d' % s) for s in range(nshards)]
    with ProcessPoolExecutor(max_workers=min(16, nshards)) as ex:
        res = list(ex.map(_check_file, files))
    total = sum(r[0] for r in res)
    viols = []
    seen = {}
    for r in res:
        for sig, text in r[1]:
            seen.setdefault(sig, 0)
            seen[sig] += 1
            if seen[sig] <= 3:
                viols.append((sig, text))
    worst = max([r[2] for r in res] + [0.0])
    samples = []
    for r in res:
        samples += r[3]
    for f in files:
        try:
            os.remove(f)
        except OSError:
            pass
    st = {'records_checked_exactly': total, 'nontrivial': total, 'max_worst_deviation_milliunits': int(min(worst, 1e15) * 1000)}
    return st, viols, samples[:3]
