/* c19_expr.c - C19: numeric and channel lists decode entry by entry exactly as written.
 * Bounded-exhaustive: every expression body of length <= L over {1 2 - . : , ! @ blank A}, put between
 * parentheses, queried at every index 0..9 through SCPI_ExprNumericListEntry / ...Int / ...Double and
 * through SCPI_ExprChannelListEntry with every capacity 0..4 (value arrays are exact-size heap blocks),
 * plus grammar-generated lists of up to 8 entries and 5 dimensions.
 * Oracle (ref_expr below, written from the statement):
 *   well-formed list  => OK with exactly the values / range flag / dimension count for i < n, NO_MORE for i >= n
 *   anything else     => OK for entry i only if the body starts with i+1 well-formed comma-separated entries
 *                        (values then must be theirs); a channel-list call never answers NO_MORE for a
 *                        malformed list and every ERROR has queued -170; nothing is stored beyond `length`.
 */
#include "scpi/scpi.h"
#include "scpi/expression.h"
#include "mc.h"
#include "ref_lex.h"

static scpi_t ctx;
static char ibuf[32];
static scpi_error_t ering[8];
static int errs[16], nerrs;
static size_t if_write(scpi_t * c, const char * d, size_t n) { (void) c; (void) d; return n; }
static int if_error(scpi_t * c, int_fast16_t e) { (void) c; if (nerrs < 16) errs[nerrs++] = (int) e; return 0; }
static scpi_interface_t itf = { if_error, if_write, NULL, NULL, NULL };
static const scpi_command_t cmds[] = { SCPI_CMD_LIST_END };

/* ---- reference ------------------------------------------------------------------------------------ */
#define MAXENT 12
#define MAXDIM 8
typedef struct { int off, len; } rspan_t;
typedef struct {
    int range;
    rspan_t from, to;                       /* numeric list */
    int dims; rspan_t f[MAXDIM], t[MAXDIM]; /* channel list */
} rentry_t;
typedef struct { int wellformed; int nvalid; rentry_t e[MAXENT]; } rlistx_t;
/* nvalid = number of leading entries that are well formed and properly separated (entry k counts if
 * entries 0..k are well formed and entries 0..k-1 are each followed by a comma) */

static int ref_nrf(const char * s, int n, int k, rspan_t * sp) {
    rtok_t t = ref_decimal(s + k, n - k);
    if (t.type == RT_UNKNOWN) return 0;
    sp->off = k; sp->len = t.len;
    return t.len;
}

static rlistx_t ref_numeric_list(const char * s, int n) {
    rlistx_t r;
    int k = 0, c;
    memset(&r, 0, sizeof r);
    for (;;) {
        rentry_t * e;
        if (r.nvalid >= MAXENT) return r;
        e = &r.e[r.nvalid];
        c = ref_nrf(s, n, k, &e->from);
        if (!c) return r;
        k += c;
        e->range = 0;
        if (k < n && s[k] == ':') {
            c = ref_nrf(s, n, k + 1, &e->to);
            if (!c) return r;
            e->range = 1; k += 1 + c;
        }
        r.nvalid++;
        if (k == n) { r.wellformed = 1; return r; }
        if (s[k] != ',') return r;
        k++;
    }
}

static int ref_spec(const char * s, int n, int k, rspan_t * v, int * dims) {
    int k0 = k, c, d = 0;
    for (;;) {
        rspan_t sp;
        c = ref_nrf(s, n, k, &sp);
        if (!c) return 0;
        if (d < MAXDIM) v[d] = sp;
        d++; k += c;
        if (k < n && s[k] == '!') { k++; continue; }
        *dims = d;
        return k - k0;
    }
}

static rlistx_t ref_channel_list(const char * s, int n) {
    rlistx_t r;
    int k = 1, c;
    memset(&r, 0, sizeof r);
    if (n < 1 || s[0] != '@') return r;
    for (;;) {
        rentry_t * e;
        int d2;
        if (r.nvalid >= MAXENT) return r;
        e = &r.e[r.nvalid];
        c = ref_spec(s, n, k, e->f, &e->dims);
        if (!c) return r;
        k += c;
        e->range = 0;
        if (k < n && s[k] == ':') {
            c = ref_spec(s, n, k + 1, e->t, &d2);
            if (!c || d2 != e->dims) return r;
            e->range = 1; k += 1 + c;
        }
        r.nvalid++;
        if (k == n) { r.wellformed = 1; return r; }
        if (s[k] != ',') return r;
        k++;
    }
}

static int fits32(long v) { return v >= -2147483647L - 1 && v <= 2147483647L; }
/* the integer readers are compared on tokens that ARE integers (sign and digits); what they make of 12E1 or 2.5 - the integer part on the pinned tree,
 * the value with the exponent applied on a variant - is not laid down by "exactly as written" */
static int plain_int(const char * s, rspan_t sp) { int i = 0; if (sp.len > 0 && (s[sp.off] == '+' || s[sp.off] == '-')) i = 1; if (i >= sp.len) return 0; for (; i < sp.len; i++) if (s[sp.off + i] < '0' || s[sp.off + i] > '9') return 0; return 1; }
static long ref_int(const char * s, rspan_t sp) {     /* what a decimal token denotes as an integer: its integer part */
    int i = sp.off, neg = 0;
    long v = 0;
    if (s[i] == '+' || s[i] == '-') { neg = s[i] == '-'; i++; }
    while (i < sp.off + sp.len && s[i] >= '0' && s[i] <= '9') { v = v * 10 + (s[i] - '0'); i++; }
    return neg ? -v : v;
}
static double ref_dbl(const char * s, rspan_t sp) {       /* value of the token with the blanks around the exponent mark removed */
    char tmp[96];
    int l = 0, i;
    for (i = 0; i < sp.len && l < 95; i++) if (s[sp.off + i] != ' ' && s[sp.off + i] != '\t') tmp[l++] = s[sp.off + i];
    tmp[l] = 0;
    return strtod(tmp, NULL);
}

/* ---- checks ------------------------------------------------------------------------------------------ */
static unsigned long long n_calls = 0, n_ok = 0, n_nomore = 0, n_error = 0, n_wellformed = 0, n_nontrivial = 0;

static int had_170(void) { int i; for (i = 0; i < nerrs; i++) if (errs[i] == SCPI_ERROR_EXPRESSION_PARSING_ERROR) return 1; return 0; }

static void check_body(const char * body, int n, int maxidx) {
    char * expr = (char *) malloc((size_t) n + 2);       /* exact size: "(" body ")" */
    scpi_parameter_t param;
    rlistx_t nl = ref_numeric_list(body, n), cl = ref_channel_list(body, n);
    int idx, cap, ci;
    char sig[96];
    expr[0] = '('; if (n) memcpy(expr + 1, body, (size_t) n); expr[n + 1] = ')';
    param.type = SCPI_TOKEN_PROGRAM_EXPRESSION; param.ptr = expr; param.len = n + 2;
    if (nl.wellformed || cl.wellformed) { n_wellformed++; n_nontrivial++; }
    for (idx = 0; idx <= maxidx; idx++) {
        /* ---- numeric list, token form ---- */
        {
            scpi_bool_t isr = 2;
            scpi_parameter_t pf, pt;
            scpi_expr_result_t res;
            const char * why = NULL;
            nerrs = 0; ctx.cmd_error = FALSE;
            res = SCPI_ExprNumericListEntry(&ctx, &param, idx, &isr, &pf, &pt);
            n_calls++;
            if (res == SCPI_EXPR_OK) {
                n_ok++;
                if (idx >= nl.nvalid) why = "ok-for-malformed-or-missing-entry";
                else {
                    rentry_t * e = &nl.e[idx];
                    if ((isr ? 1 : 0) != e->range) why = "range-flag";
                    else if (pf.ptr != expr + 1 + e->from.off || pf.len != e->from.len) why = "from-extent";
                    else if (e->range && (pt.ptr != expr + 1 + e->to.off || pt.len != e->to.len)) why = "to-extent";
                }
            } else if (res == SCPI_EXPR_NO_MORE) {
                n_nomore++;
                if (idx < nl.nvalid) why = "no-more-for-existing-entry";
            } else {
                n_error++;
                if (nl.wellformed) why = "error-for-wellformed-list";
                else if (idx < nl.nvalid) why = "error-for-wellformed-entry";
            }
            if (nl.wellformed && idx >= nl.nvalid && res != SCPI_EXPR_NO_MORE && !why) why = "no-more-expected";
            if (why) { snprintf(sig, sizeof sig, "c19/numeric/%s", why); mc_viol(sig, "body [%s] index %d: result %d isRange %d (reference: wellformed=%d entries=%d)", mc_e(body, (size_t) n), idx, (int) res, (int) isr, nl.wellformed, nl.nvalid); break; }
        }
        /* ---- numeric list, int and double ---- */
        {
            scpi_bool_t isr = 2, isr2 = 2;
            int32_t vf = 77777, vt = 77777;
            double df = 7.5, dt = 7.5;
            scpi_expr_result_t res, res2;
            const char * why = NULL;
            nerrs = 0;
            res = SCPI_ExprNumericListEntryInt(&ctx, &param, idx, &isr, &vf, &vt);
            res2 = SCPI_ExprNumericListEntryDouble(&ctx, &param, idx, &isr2, &df, &dt);
            n_calls += 2;
            if ((res == SCPI_EXPR_OK) != (idx < nl.nvalid) && (res == SCPI_EXPR_OK || nl.wellformed || idx < nl.nvalid)) why = "int-result";
            else if (res2 != res) why = "double-result-differs";
            else if (res == SCPI_EXPR_OK) {
                rentry_t * e = &nl.e[idx];
                if ((isr ? 1 : 0) != e->range || (isr2 ? 1 : 0) != e->range) why = "range-flag";
                else if (plain_int(body, e->from) && fits32(ref_int(body, e->from)) && vf != (int32_t) ref_int(body, e->from)) why = "int-from-value";      /* a value that does not fit 32 bits has no defined int32 image */
                else if (e->range && plain_int(body, e->to) && fits32(ref_int(body, e->to)) && vt != (int32_t) ref_int(body, e->to)) why = "int-to-value";
                else if (df != ref_dbl(body, e->from)) why = "double-from-value";
                else if (e->range && dt != ref_dbl(body, e->to)) why = "double-to-value";
            }
            if (why) { snprintf(sig, sizeof sig, "c19/numeric/%s", why); mc_viol(sig, "body [%s] index %d: int result %d (%d..%d range %d) double result %d (%g..%g)", mc_e(body, (size_t) n), idx, (int) res, (int) vf, (int) vt, (int) isr, (int) res2, df, dt); break; }
        }
        /* ---- channel list ---- */
        for (ci = -1; ci <= 4; ci++) {      /* -1: capacity 0 announced with NULL arrays (the "how many dimensions?" call of the examples) */
            int nullarr = ci < 0;
            int32_t * vf = (cap = ci < 0 ? 0 : ci, nullarr) ? NULL : (int32_t *) malloc(sizeof (int32_t) * (size_t) cap), * vt = nullarr ? NULL : (int32_t *) malloc(sizeof (int32_t) * (size_t) cap);
            scpi_bool_t isr = 2;
            size_t dims = 999;
            scpi_expr_result_t res;
            const char * why = NULL;
            int d;
            for (d = 0; d < cap; d++) { vf[d] = 77777; vt[d] = 88888; }
            nerrs = 0;
            res = SCPI_ExprChannelListEntry(&ctx, &param, idx, &isr, vf, vt, (size_t) cap, &dims);
            n_calls++;
            if (res == SCPI_EXPR_OK) {
                n_ok++;
                if (idx >= cl.nvalid) why = "ok-for-malformed-or-missing-entry";
                else {
                    rentry_t * e = &cl.e[idx];
                    if ((isr ? 1 : 0) != e->range) why = "range-flag";
                    else if ((int) dims != e->dims) why = "dimensions";
                    else for (d = 0; d < cap && d < e->dims && d < MAXDIM; d++) {
                        if (plain_int(body, e->f[d]) && fits32(ref_int(body, e->f[d])) && vf[d] != (int32_t) ref_int(body, e->f[d])) { why = "from-value"; break; }
                        if (e->range && plain_int(body, e->t[d]) && fits32(ref_int(body, e->t[d])) && vt[d] != (int32_t) ref_int(body, e->t[d])) { why = "to-value"; break; }
                    }
                    if (!why) for (d = e->dims; d < cap; d++) if (vf[d] != 77777 || vt[d] != 88888) { why = "value-slot-beyond-dimensions-written"; break; }
                }
            } else if (res == SCPI_EXPR_NO_MORE) {
                n_nomore++;
                if (!cl.wellformed) why = "no-more-for-malformed-list";
                else if (idx < cl.nvalid) why = "no-more-for-existing-entry";
            } else {
                n_error++;
                if (cl.wellformed) why = "error-for-wellformed-list";
                else if (idx < cl.nvalid) why = "error-for-wellformed-entry";
                else if (!had_170()) why = "error-without-170";
            }
            free(vf); free(vt);
            if (why) { snprintf(sig, sizeof sig, "c19/channel/%s", why); mc_viol(sig, "body [%s] index %d capacity %d: result %d isRange %d dims %d (reference: wellformed=%d entries=%d)", mc_e(body, (size_t) n), idx, cap, (int) res, (int) isr, (int) dims, cl.wellformed, cl.nvalid); goto out; }
        }
    }
out:
    { uint64_t h = mc_hash(&nl, sizeof nl, 1) ^ mc_hash(&cl, sizeof cl, 2); mc_outcome(h); }
    free(expr);
}

static const char alpha[] = "12-.:,!@ AE+0";

int main(int argc, char ** argv) {
    int L, len, i;
    char s[16];
    int idx[16];
    mc_init(argc, argv);
    SCPI_Init(&ctx, cmds, &itf, scpi_units_def, "a", "b", "c", "d", ibuf, sizeof ibuf, ering, 8);
    L = mc_thorough ? 7 : 6;
    for (len = 0; len <= L; len++) {
        for (i = 0; i < len; i++) { idx[i] = 0; s[i] = alpha[0]; }
        for (;;) {
            if (MC_CASE()) {
                mc_case_tag = "body"; mc_case_s[0] = (const unsigned char *) s; mc_case_n[0] = (size_t) len;
                check_body(s, len, len >= 6 ? 4 : 9);
                if ((mc_executed & 0xff) == 0) SCPI_ErrorClear(&ctx);
            }
            for (i = len - 1; i >= 0; i--) { if (++idx[i] < 13) { s[i] = alpha[idx[i]]; break; } idx[i] = 0; s[i] = alpha[0]; }
            if (i < 0) break;
        }
    }
    /* grammar-generated lists: up to 8 entries, up to 5 dimensions, ranges at every position */
    {
        int ne, nd, rm, ch;
        char body[400];
        for (ch = 0; ch < 2; ch++) for (ne = 1; ne <= 8; ne++) for (nd = 1; nd <= (ch ? 5 : 1); nd++) for (rm = 0; rm < (1 << ne); rm++) {
            int o = 0, e, d, v = 1;
            if (!MC_CASE()) continue;
            mc_case_tag = "generated"; mc_case_i[0] = ch; mc_case_i[1] = ne; mc_case_i[2] = nd; mc_case_i[3] = rm;
            if (ch) body[o++] = '@';
            for (e = 0; e < ne; e++) {
                int half;
                if (e) body[o++] = ',';
                for (half = 0; half < ((rm >> e) & 1 ? 2 : 1); half++) {
                    if (half) body[o++] = ':';
                    for (d = 0; d < nd; d++) { if (d) body[o++] = '!'; o += snprintf(body + o, sizeof body - (size_t) o, (v % 7 == 0) ? "-%d" : (v % 5 == 0 && !ch) ? "%d.5" : "%d", v * 3); v++; }
                }
            }
            mc_case_s[0] = (const unsigned char *) body; mc_case_n[0] = (size_t) o;
            check_body(body, o, 9);
            SCPI_ErrorClear(&ctx);
        }
    }
    {   /* long numbers, exponents with sign and with the blanks IEEE 488.2 allows, up to 12 entries */
        static const char * nums[] = {"1.234567 E3", "1234.5678 E-2", "12345678 E1", "-0.000125 E4", "1E+2", "4E+1", "5E-1", "2.5e+0", "1.0e+1", "+.5", "123456789012", "0.000000001", "7", "-2147483648", "2147483647"};
        int a, b2, c2;
        char body[256];
        for (a = 0; a < 15; a++) for (b2 = 0; b2 < 15; b2++) for (c2 = 0; c2 < 15; c2++) {
            int o;
            if (!MC_CASE()) continue;
            o = sprintf(body, "%s,%s:%s,%s,%s:%s", nums[a], nums[b2], nums[c2], nums[(a + b2) % 15], nums[c2], nums[a]);
            mc_case_tag = "long-numbers"; mc_case_s[0] = (const unsigned char *) body; mc_case_n[0] = (size_t) o;
            check_body(body, o, 6);
            if ((a + b2 + c2) % 3 == 0) { o = sprintf(body, "@%s!%s:%s!%s,%s", nums[4 + a % 4], nums[12], nums[5], nums[4 + b2 % 4], nums[4 + c2 % 4]); check_body(body, o, 3); }
            SCPI_ErrorClear(&ctx);
        }
    }
    if (mc_shard == 0) {
        mc_sample("body [1:2,5] queried at index 0..9: OK(range 1..2), OK(5), NO_MORE x8; as channel list: ERROR/-170 (no '@')");
        mc_sample("body [@1!2:3!4,5] capacity 0..4, index 0..9");
        mc_sample("every body of length <= %d over [%s]", L, alpha);
    }
    mc_stat("impl_calls", n_calls);
    mc_stat("nontrivial", n_nontrivial);
    mc_stat("wellformed_lists", n_wellformed);
    mc_stat("results_ok", n_ok);
    mc_stat("results_no_more", n_nomore);
    mc_stat("results_error", n_error);
    return mc_finish();
}
