/* ref_lex.h - reference recognisers for the IEEE 488.2 section 7 program syntax, written from the
 * standard (7.4 separators, 7.5 terminator, 7.6 headers, 7.7 program data), with the three leniencies
 * the library documents:
 *   - relaxed suffix:  '/'?  [ alpha+ '-'? digit? ( ('/'|'.') alpha* '-'? digit? )* ]   (non-empty overall)
 *   - definite-length arbitrary blocks only ("#0" is not recognised)
 *   - flat expressions: '(' then characters 0x20..0x7e except " # ' ( ) ; then ')'
 * white space is blank and horizontal tab only (the library's reading of 7.4.1.2), a line terminator is
 * [CR] LF or a lone CR,
 * and its conventions for incomplete input:
 *   - '*' without a mnemonic is an INCOMPLETE COMMON header of length 1; ':' without a mnemonic, or a
 *     header ending in ':' without a following mnemonic, is an INCOMPLETE COMPOUND header
 *   - an incomplete block ('#', '#<d>' + fewer than d digits, or fewer data bytes than announced, each at
 *     the end of the input) is no token but consumes the rest of the input
 *   - quoted strings are scanned as a receiver must scan them: a quote followed by a quote is always an
 *     embedded quote; an unterminated string is no token
 * Every function works on (s, n) from offset 0 and returns what a longest-match recogniser must report.
 * No code is shared with the library.
 */
#ifndef REF_LEX_H
#define REF_LEX_H
#include <stddef.h>

typedef struct {
    int type;        /* scpi_token_type_t value; RT_UNKNOWN if no token */
    int off, len;    /* extent of the token as the library reports it (ptr - start, len) */
    int consumed;    /* cursor displacement */
    int ret;         /* return value of the recogniser */
} rtok_t;

enum {
    RT_COMMA = 0, RT_SEMICOLON, RT_COLON, RT_SPECIFIC, RT_QUESTION, RT_NL, RT_HEX, RT_OCT, RT_BIN, RT_MNEMONIC,
    RT_DEC, RT_DEC_SUFFIX, RT_SUFFIX, RT_BLOCK, RT_SQUOTE, RT_DQUOTE, RT_EXPR, RT_COMPOUND, RT_INC_COMPOUND,
    RT_COMMON, RT_INC_COMMON, RT_COMPOUND_Q, RT_COMMON_Q, RT_WS, RT_ALL, RT_INVALID, RT_UNKNOWN
};

static int r_alpha(int c) { return (c >= 'a' && c <= 'z') || (c >= 'A' && c <= 'Z'); }
static int r_digit(int c) { return c >= '0' && c <= '9'; }
static int r_ws(int c) { return c == ' ' || c == '\t'; }
#define RC(i) ((i) < n ? (unsigned char) s[i] : -1)

static rtok_t r_none(void) { rtok_t t = {RT_UNKNOWN, 0, 0, 0, 0}; return t; }
static rtok_t r_tok(int type, int off, int len, int consumed) { rtok_t t; t.type = type; t.off = off; t.len = len; t.consumed = consumed; t.ret = consumed; return t; }

static int r_wslen(const char * s, int n, int i) { int k = i; while (r_ws(RC(k))) k++; return k - i; }
static int r_mnemlen(const char * s, int n, int i) {       /* <program mnemonic>: alpha (alnum | _)* */
    int k = i;
    if (!r_alpha(RC(k))) return 0;
    k++;
    while (r_alpha(RC(k)) || r_digit(RC(k)) || RC(k) == '_') k++;
    return k - i;
}

static rtok_t ref_ws(const char * s, int n) { int k = r_wslen(s, n, 0); return k ? r_tok(RT_WS, 0, k, k) : r_none(); }

static rtok_t ref_header(const char * s, int n) {
    int k = 0, m;
    if (RC(0) == '*') {
        m = r_mnemlen(s, n, 1);
        if (m == 0) return r_tok(RT_INC_COMMON, 0, 1, 1);
        k = 1 + m;
        if (RC(k) == '?') return r_tok(RT_COMMON_Q, 0, k + 1, k + 1);
        return r_tok(RT_COMMON, 0, k, k);
    }
    if (RC(0) == ':') k = 1;
    m = r_mnemlen(s, n, k);
    if (m == 0) return k ? r_tok(RT_INC_COMPOUND, 0, 1, 1) : r_none();
    k += m;
    while (RC(k) == ':') {
        m = r_mnemlen(s, n, k + 1);
        if (m == 0) return r_tok(RT_INC_COMPOUND, 0, k + 1, k + 1);
        k += 1 + m;
    }
    if (RC(k) == '?') return r_tok(RT_COMPOUND_Q, 0, k + 1, k + 1);
    return r_tok(RT_COMPOUND, 0, k, k);
}

static rtok_t ref_chardata(const char * s, int n) { int m = r_mnemlen(s, n, 0); return m ? r_tok(RT_MNEMONIC, 0, m, m) : r_none(); }

static rtok_t ref_decimal(const char * s, int n) {
    int k = 0, digits = 0, e, ed;
    if (RC(k) == '+' || RC(k) == '-') k++;
    while (r_digit(RC(k))) { k++; digits++; }
    if (RC(k) == '.') { k++; while (r_digit(RC(k))) { k++; digits++; } }
    if (!digits) return r_none();
    e = k + r_wslen(s, n, k);
    if (RC(e) == 'E' || RC(e) == 'e') {
        e++;
        e += r_wslen(s, n, e);
        if (RC(e) == '+' || RC(e) == '-') e++;
        ed = 0;
        while (r_digit(RC(e))) { e++; ed++; }
        if (ed) k = e;
    }
    return r_tok(RT_DEC, 0, k, k);
}

static rtok_t ref_suffix(const char * s, int n) {
    int k = 0, a;
    if (RC(k) == '/') k++;
    a = 0; while (r_alpha(RC(k + a))) a++;
    if (a) {
        k += a;
        if (RC(k) == '-') k++;
        if (r_digit(RC(k))) k++;
        while (RC(k) == '/' || RC(k) == '.') {
            k++;
            while (r_alpha(RC(k))) k++;
            if (RC(k) == '-') k++;
            if (r_digit(RC(k))) k++;
        }
    }
    return k ? r_tok(RT_SUFFIX, 0, k, k) : r_none();
}

static rtok_t ref_nondecimal(const char * s, int n) {
    int k = 2, c = RC(1), type, d = 0;
    rtok_t t;
    if (RC(0) != '#') return r_none();
    if (c == 'H' || c == 'h') { type = RT_HEX; while (r_digit(RC(k)) || (RC(k) >= 'a' && RC(k) <= 'f') || (RC(k) >= 'A' && RC(k) <= 'F')) { k++; d++; } }
    else if (c == 'Q' || c == 'q') { type = RT_OCT; while (RC(k) >= '0' && RC(k) <= '7') { k++; d++; } }
    else if (c == 'B' || c == 'b') { type = RT_BIN; while (RC(k) == '0' || RC(k) == '1') { k++; d++; } }
    else return r_none();
    if (!d) return r_none();
    t = r_tok(type, 2, d, k);
    return t;
}

static rtok_t ref_string(const char * s, int n) {
    int q = RC(0), k = 1;
    if (q != '"' && q != '\'') return r_none();
    for (;;) {
        int c = RC(k);
        if (c < 0) return r_none();                 /* unterminated */
        if (c == q) {
            if (RC(k + 1) == q) { k += 2; continue; }
            return r_tok(q == '"' ? RT_DQUOTE : RT_SQUOTE, 0, k + 1, k + 1);
        }
        if (c > 0x7f) return r_none();              /* not 7 bit ASCII */
        k++;
    }
}

/* consumed == n with type UNKNOWN: incomplete block swallowing the rest */
static rtok_t ref_block(const char * s, int n) {
    int d, i, k, len = 0;
    rtok_t t;
    if (RC(0) != '#') return r_none();
    if (n == 1) { t = r_none(); t.consumed = n; return t; }
    if (!(RC(1) >= '1' && RC(1) <= '9')) return r_none();
    d = RC(1) - '0';
    k = 2;
    for (i = 0; i < d; i++) {
        if (k >= n) { t = r_none(); t.consumed = n; return t; }
        if (!r_digit(RC(k))) return r_none();
        len = len * 10 + (RC(k) - '0');
        k++;
    }
    if (k + len > n) { t = r_none(); t.consumed = n; return t; }
    t = r_tok(RT_BLOCK, k, len, k + len);
    return t;
}

static rtok_t ref_expr(const char * s, int n) {
    int k = 1;
    if (RC(0) != '(') return r_none();
    for (;;) {
        int c = RC(k);
        if (c == ')') return r_tok(RT_EXPR, 0, k + 1, k + 1);
        if (c < 0x20 || c > 0x7e || c == '"' || c == '#' || c == '\'' || c == '(' || c == ';') return r_none();
        k++;
    }
}

static rtok_t ref_char(const char * s, int n, int ch, int type) { return RC(0) == ch ? r_tok(type, 0, 1, 1) : r_none(); }

static rtok_t ref_newline(const char * s, int n) {
    int k = 0;
    if (RC(k) == '\r') k++;
    if (RC(k) == '\n') k++;
    return k ? r_tok(RT_NL, 0, k, k) : r_none();
}

/* <PROGRAM DATA> with surrounding white space.  off/len = the data token; consumed includes the blanks */
static rtok_t ref_programdata(const char * s, int n) {
    int w = r_wslen(s, n, 0), w2;
    rtok_t t;
    const char * p = s + w;
    int m = n - w;
    t = ref_nondecimal(p, m);
    if (t.type == RT_UNKNOWN) t = ref_chardata(p, m);
    if (t.type == RT_UNKNOWN) {
        t = ref_decimal(p, m);
        if (t.type != RT_UNKNOWN) {
            int ws = r_wslen(p, m, t.consumed);
            rtok_t sx = ref_suffix(p + t.consumed + ws, m - t.consumed - ws);
            if (sx.type != RT_UNKNOWN) { t.type = RT_DEC_SUFFIX; t.len += ws + sx.len; t.consumed = t.len; }
        }
    }
    if (t.type == RT_UNKNOWN) t = ref_string(p, m);
    if (t.type == RT_UNKNOWN) {
        t = ref_block(p, m);
        if (t.type == RT_UNKNOWN && t.consumed == m && m > 0) {       /* incomplete block: rest swallowed */
            t.consumed = n; t.ret = w; t.off = 0; t.len = 0;
            return t;
        }
    }
    if (t.type == RT_UNKNOWN) t = ref_expr(p, m);
    if (t.type == RT_UNKNOWN) { t = r_none(); t.consumed = w; t.ret = w; return t; }
    w2 = r_wslen(p, m, t.consumed);
    t.off += w;
    t.consumed = w + t.consumed + w2;
    t.ret = t.consumed;
    return t;
}

/* <PROGRAM DATA> (',' <PROGRAM DATA>)*   count: number of items, -1 = broken list, 0 = nothing there */
typedef struct { int ok; int count; int consumed; int len; } rlist_t;
static rlist_t ref_alldata(const char * s, int n) {
    rlist_t r = {0, 0, 0, 0};
    int k = 0;
    for (;;) {
        rtok_t t = ref_programdata(s + k, n - k);
        if (t.type == RT_UNKNOWN) {
            if (r.count == 0 && t.consumed == r_wslen(s, n, k)) { r.count = 0; }
            else r.count = -1;
            r.ok = 0; r.consumed = k + t.consumed; r.len = 0;
            return r;
        }
        k += t.consumed;
        r.count++;
        if (RC(k) == ',') { k++; continue; }
        r.ok = 1; r.consumed = k; r.len = k;
        return r;
    }
}

/* <PROGRAM MESSAGE UNIT> followed by its separator / terminator / the end of the input */
enum { RU_EMPTY, RU_WELLFORMED, RU_MALFORMED };
typedef struct { int kind; rtok_t header; int hdr_off; int nparams; int term; int consumed; } runit_t;   /* term: 0 none (end), 1 NL, 2 ';' */
static runit_t ref_unit(const char * s, int n) {
    runit_t u;
    int k = r_wslen(s, n, 0), w;
    rtok_t nl;
    memset(&u, 0, sizeof u);
    u.hdr_off = k;
    u.header = ref_header(s + k, n - k);
    if (u.header.type == RT_UNKNOWN) {
        u.kind = RU_EMPTY;
    } else {
        int complete = u.header.type == RT_COMPOUND || u.header.type == RT_COMPOUND_Q || u.header.type == RT_COMMON || u.header.type == RT_COMMON_Q;
        u.kind = complete ? RU_WELLFORMED : RU_MALFORMED;
        k += u.header.consumed;
        w = r_wslen(s, n, k);
        if (w > 0) {
            rlist_t l;
            k += w;
            l = ref_alldata(s + k, n - k);
            u.nparams = l.count;
            if (l.ok) k += l.consumed;
            else { if (l.count < 0) u.kind = RU_MALFORMED; k += l.consumed; }
        }
    }
    nl = ref_newline(s + k, n - k);
    if (nl.type != RT_UNKNOWN) { u.term = 1; k += nl.consumed; }
    else if (RC(k) == ';') { u.term = 2; k++; }
    else if (k < n) { u.kind = RU_MALFORMED; u.term = -1; }      /* something that is neither data nor an end */
    u.consumed = k;
    return u;
}
#undef RC
#endif
