/* c10_fifo.c - C10: the error queue is a bounded FIFO that marks overflow and owns its texts.
 *
 * Explicit-state exploration (mcx) of the real queue: every transition is a real API call
 *   push(code, text?, allocator answer)   SCPI_ErrorPushEx, strndup wrapped: may be told to fail
 *   pop                                   SCPI_ErrorPop; the harness releases the text it now owns
 *   clear / *CLS / count / SYST:ERR? / SYST:ERR:COUN?
 * stepped in lock-step with a reference FIFO ("push on a full queue replaces the newest entry by
 * -350").  The allocator behind strndup/free is a slot arena with a ledger (link-time
 * --wrap=strndup,--wrap=free): after every operation the live blocks must be exactly the texts owned
 * by queue entries (no leak), a free of a non-live block is a double free, freed and unused bytes are
 * ASan-poisoned (use after free / overrun trap).
 * Configurations: def (malloc'd texts) and noinfo (no device-dependent text at all).
 */
#include "scpi/scpi.h"
#include "mcx.h"

#if USE_DEVICE_DEPENDENT_ERROR_INFORMATION
#define INFO 1
#else
#define INFO 0
#endif

/* ---- allocator arena -------------------------------------------------------------------------- */
#define NSLOT 8
#define SLOTSZ 320
static char * arena;                    /* NSLOT * SLOTSZ, heap block */
static unsigned char live[NSLOT];
static unsigned short slotlen[NSLOT];   /* bytes handed out (strlen + 1) */
static int fail_next = 0;
static unsigned long long n_alloc = 0, n_free = 0, n_failed = 0;
static int in_lib_call = 0;

extern void * __real_free(void * p);
extern char * __real_strndup(const char * s, size_t n);

static void slot_poison(int i) {
    char * s = arena + (size_t) i * SLOTSZ;
    ASAN_UNPOISON_MEMORY_REGION(s, SLOTSZ);
    if (!live[i]) { ASAN_POISON_MEMORY_REGION(s, SLOTSZ); }
    else if (slotlen[i] < SLOTSZ) { ASAN_POISON_MEMORY_REGION(s + slotlen[i], SLOTSZ - slotlen[i]); }
}

/* a block of `size` bytes from the slot arena (NULL when the harness injects an allocation failure) */
static char * arena_alloc(size_t size) {
    int i;
    if (fail_next) { fail_next = 0; n_failed++; return NULL; }
    for (i = 0; i < NSLOT; i++) if (!live[i]) break;
    if (i == NSLOT || size > SLOTSZ || size == 0) { mcx_viol("c10/harness-arena-exhausted", "no free slot"); return NULL; }
    live[i] = 1; slotlen[i] = (unsigned short) size;
    ASAN_UNPOISON_MEMORY_REGION(arena + (size_t) i * SLOTSZ, SLOTSZ);
    memset(arena + (size_t) i * SLOTSZ, 0xA5, size);
    slot_poison(i);
    n_alloc++;
    return arena + (size_t) i * SLOTSZ;
}

char * __wrap_strndup(const char * s, size_t n);
char * __wrap_strndup(const char * s, size_t n) {
    size_t len = strnlen(s, n);
    char * d;
    if (!in_lib_call) return __real_strndup(s, n);
    d = arena_alloc(len + 1);
    if (!d) return NULL;
    memcpy(d, s, len);
    d[len] = 0;
    return d;
}

/* strict ISO builds (configuration c90): the library duplicates texts with its own OUR_strndup, which calls malloc */
extern void * __real_malloc(size_t n);
void * __wrap_malloc(size_t n);
void * __wrap_malloc(size_t n) {
    if (!in_lib_call) return __real_malloc(n);
    return arena_alloc(n);
}

void __wrap_free(void * p);
void __wrap_free(void * p) {
    char * c = (char *) p;
    if (!p) return;
    if (arena && c >= arena && c < arena + NSLOT * SLOTSZ) {
        int i = (int) ((c - arena) / SLOTSZ);
        if ((c - arena) % SLOTSZ) { mcx_viol("c10/free-of-interior-pointer", "free(%p) is not a block start", p); return; }
        if (!live[i]) { mcx_viol("c10/double-free", "free of text block %d which is not live", i); return; }
        live[i] = 0;
        slot_poison(i);
        n_free++;
        return;
    }
    __real_free(p);
}

/* ---- system under test -------------------------------------------------------------------------- */
static scpi_t ctx;
static char ibuf[64];
#define MAXCAP 6
static scpi_error_t * ering;
static int cap = 1;
static char outbuf[1024]; static size_t outn;

static size_t if_write(scpi_t * c, const char * d, size_t n) { (void) c; if (outn + n < sizeof outbuf) { memcpy(outbuf + outn, d, n); outn += n; } outbuf[outn] = 0; return n; }
static int if_error(scpi_t * c, int_fast16_t e) { (void) c; (void) e; return 0; }
static scpi_result_t if_control(scpi_t * c, scpi_ctrl_name_t ctrl, scpi_reg_val_t val) { (void) c; (void) ctrl; (void) val; return SCPI_RES_OK; }
static scpi_result_t if_flush(scpi_t * c) { (void) c; return SCPI_RES_OK; }
static scpi_interface_t itf = { if_error, if_write, if_control, if_flush, NULL };
static const scpi_command_t cmds[] = {
    {"*CLS", SCPI_CoreCls, 0},
    {"SYSTem:ERRor[:NEXT]?", SCPI_SystemErrorNextQ, 0}, {"SYSTem:ERRor:COUNt?", SCPI_SystemErrorCountQ, 0},
    SCPI_CMD_LIST_END
};

/* ---- texts and model ------------------------------------------------------------------------------ */
static char longtext[301], longtext255[256];   /* automatic length stops at 255 characters */
static const char * texts[5] = {NULL, "a", "bb\"c", "bb", longtext};   /* id 3 = id 2 pushed with info_len 2 */
typedef struct { int16_t code; uint8_t text; } ment_t;
static ment_t model[MAXCAP];
static int mcount = 0;

/* ---- ops --------------------------------------------------------------------------------------------- */
enum { OP_PUSH, OP_POP, OP_CLEAR, OP_COUNT, OP_CMD };
typedef struct { int kind; int16_t code; int text; int fail; const char * cmd; } op_t;
static op_t ops[64];
static int nops = 0;

static void opname(int op, char * buf, size_t n) {
    const op_t * o = &ops[op];
    switch (o->kind) {
        case OP_PUSH: snprintf(buf, n, "push(%d,%s%s)", o->code, o->text == 0 ? "no-text" : o->text == 1 ? "'a'" : o->text == 2 ? "'bb\"c'" : o->text == 3 ? "'bb\"c'/len2" : "300-byte-text", o->fail ? ",alloc-fails" : ""); break;
        case OP_POP: snprintf(buf, n, "ErrorPop"); break;
        case OP_CLEAR: snprintf(buf, n, "ErrorClear"); break;
        case OP_COUNT: snprintf(buf, n, "ErrorCount"); break;
        default: snprintf(buf, n, "Input(%s)", mc_es(o->cmd)); break;
    }
}

static void build_ops(void) {
    static const int16_t codes[] = {-113, -222, 5};
    int c, t, ntext = cap >= 5 ? 2 : 5, ncodes = cap >= 5 ? 2 : 3;    /* large capacities: reduced alphabet */
    nops = 0;
    for (c = 0; c < ncodes; c++) {
        for (t = 0; t < ntext; t++) {
            if (!INFO && t > 1) continue;          /* texts are ignored without the info feature: one is enough */
            ops[nops].kind = OP_PUSH; ops[nops].code = codes[c]; ops[nops].text = t; ops[nops].fail = 0; nops++;
            if (INFO && t > 0 && (c == 0 || t == 1)) { ops[nops].kind = OP_PUSH; ops[nops].code = codes[c]; ops[nops].text = t; ops[nops].fail = 1; nops++; }
        }
    }
    ops[nops++].kind = OP_POP;
    ops[nops++].kind = OP_CLEAR;
    ops[nops++].kind = OP_COUNT;
    ops[nops].kind = OP_CMD; ops[nops++].cmd = "SYST:ERR?\n";
    ops[nops].kind = OP_CMD; ops[nops++].cmd = "SYST:ERR:COUN?\n";
    ops[nops].kind = OP_CMD; ops[nops++].cmd = "*CLS\n";
    ops[nops].kind = OP_CMD; ops[nops++].cmd = "SYST:ERR:NEXT?;:SYST:ERR?\n";
}

/* ---- state -------------------------------------------------------------------------------------------- */
typedef struct {
    scpi_t ctx;
    scpi_error_t ring[MAXCAP];
    unsigned char live[NSLOT];
    unsigned short slotlen[NSLOT];
    ment_t model[MAXCAP];
    int mcount;
} snap_t;

/* Canonical key.  Not part of it, with the reason why merging is sound:
 *  - ring slots outside [rd, rd+count): a correct queue overwrites them before it reads them; a faulty
 *    one that reads a stale slot is caught by the comparison with the model whatever the slot holds;
 *  - which arena slot holds a text: block addresses are opaque to the library; ownership errors
 *    (leak, double free, dangling or shared block) are reported in the very transition that creates them;
 *  - ESR and the other registers except STB: the queue reads only the error-available bit of STB.
 * The positions rd/wr are part of the key (wrap-around arithmetic depends on them). */
typedef struct {
    int16_t wr, rd, count;
    struct { int16_t code; int8_t text; } q[MAXCAP];      /* queue order, text identity by content */
    uint16_t stb;
    ment_t model[MAXCAP];
    int8_t mcount;
} qkey_t;

static int slot_of(const char * p) {
    if (!p) return -1;
    if (p >= arena && p < arena + NSLOT * SLOTSZ) return (int) ((p - arena) / SLOTSZ);
    return -2;
}

static void st_save(unsigned char * keyb, unsigned char * snapb) {
    qkey_t * k = (qkey_t *) keyb;
    snap_t * s = (snap_t *) snapb;
    int i, j;
    memset(k, 0, sizeof *k); memset(s, 0, sizeof *s);
    k->wr = ctx.error_queue.wr; k->rd = ctx.error_queue.rd; k->count = ctx.error_queue.count;
    for (i = 0; i < cap; i++) s->ring[i] = ering[i];
    for (i = 0; i < ctx.error_queue.count && i < cap; i++) {
        int idx = (ctx.error_queue.rd + i) % cap;
        k->q[i].code = ering[idx].error_code;
        k->q[i].text = 0;
#if INFO
        j = slot_of(ering[idx].device_dependent_info);
        if (j >= 0 && live[j]) k->q[i].text = (int8_t) (slotlen[j] == 2 ? 1 : slotlen[j] == 5 ? 2 : slotlen[j] == 3 ? 3 : 4);
        else if (j != -1) k->q[i].text = -1;
#endif
    }
    for (i = 0; i < NSLOT; i++) { s->live[i] = live[i]; s->slotlen[i] = live[i] ? slotlen[i] : 0; }
    k->stb = ctx.registers[SCPI_REG_STB];
    memcpy(k->model, model, sizeof (ment_t) * (size_t) mcount); k->mcount = (int8_t) mcount;   /* live part only */
    s->ctx = ctx; memcpy(s->model, model, sizeof model); s->mcount = mcount;
}

static void st_load(const unsigned char * keyb, const unsigned char * snapb) {
    const snap_t * s = (const snap_t *) snapb;
    int i;
    (void) keyb;
    ctx = s->ctx;
    for (i = 0; i < cap; i++) ering[i] = s->ring[i];
    for (i = 0; i < NSLOT; i++) {
        char * p = arena + (size_t) i * SLOTSZ;
        ASAN_UNPOISON_MEMORY_REGION(p, SLOTSZ);
        live[i] = s->live[i]; slotlen[i] = s->slotlen[i];
        if (live[i]) {
            /* rebuild the text from its identity (the alphabet is closed: 'a', 'bb"c', 'bb', long) */
            const char * t = s->slotlen[i] == 2 ? texts[1] : s->slotlen[i] == 5 ? texts[2] : s->slotlen[i] == 3 ? texts[3] : longtext255;
            memcpy(p, t, strlen(t) + 1);
        } else memset(p, 0xA5, SLOTSZ);
        slot_poison(i);
    }
    memcpy(model, s->model, sizeof model); mcount = s->mcount;
    fail_next = 0;
}

/* ---- oracle ------------------------------------------------------------------------------------------- */
static unsigned long long n_fail_unused = 0;
static unsigned long long n_nontrivial = 0, n_pops = 0, n_overflow = 0, n_queries = 0, n_ledger = 0;

static void model_push(int16_t code, int text) {
    if (mcount == cap) { model[cap - 1].code = -350; model[cap - 1].text = 0; n_overflow++; }
    else { model[mcount].code = code; model[mcount].text = (uint8_t) text; mcount++; }
}
static ment_t model_pop(void) {
    ment_t e = {0, 0};
    if (mcount > 0) { e = model[0]; memmove(model, model + 1, sizeof (ment_t) * (size_t) (mcount - 1)); mcount--; }
    return e;
}

static const char * mtext(int id) { return id == 3 ? "bb" : id == 4 ? longtext255 : texts[id]; }

static void check_ledger(void) {
#if INFO
    int i, j, refs[NSLOT];
    memset(refs, 0, sizeof refs);
    n_ledger++;
    for (j = 0; j < ctx.error_queue.count; j++) {
        int idx = (ctx.error_queue.rd + j) % cap;
        int s = slot_of(ering[idx].device_dependent_info);
        if (s == -2) mcx_viol("c10/foreign-text-pointer", "queue entry %d holds a pointer that the allocator never returned", j);
        else if (s >= 0) {
            if (!live[s]) mcx_viol("c10/dangling-text", "queue entry %d (code %d) refers to text block %d which has been freed", j, ering[idx].error_code, s);
            refs[s]++;
        }
    }
    for (i = 0; i < NSLOT; i++) {
        if (live[i] && refs[i] == 0) mcx_viol("c10/leak", "text block %d is live but no queue entry owns it", i);
        if (refs[i] > 1) mcx_viol("c10/shared-text", "text block %d is owned by %d queue entries", i, refs[i]);
    }
#endif
}

/* <code>,"<description>[;<text>]" with doubled quotes; the quoted content is limited to 255 characters
 * (SCPI-99 21.8; the exact placement of that cut is the subject of C18, here texts stay clear of it except
 * for the long text, which has no quote near the cut) */
static void expect_response_text(char * buf, size_t n, int code, const char * t) {
    char content[700];
    size_t o, i, used = 0, cl;
    cl = (size_t) snprintf(content, sizeof content, "%s%s%s", SCPI_ErrorTranslate((int16_t) code), (INFO && t) ? ";" : "", (INFO && t) ? t : "");
    o = (size_t) snprintf(buf, n, "%d,\"", code);
    for (i = 0; i < cl && o + 4 < n; i++) {
        size_t cost = content[i] == '"' ? 2 : 1;
        if (used + cost > 255) break;
        buf[o++] = content[i]; if (cost == 2) buf[o++] = '"';
        used += cost;
    }
    buf[o++] = '"'; buf[o] = 0;
}
static void expect_response(char * buf, size_t n, ment_t e) { expect_response_text(buf, n, e.code, mtext(e.text)); }

/* texts that end at and around the 255-character limit of the response, with quotes at the first place and at up to two of
 * the last six places: pushed (automatic and explicit length), then read back by pop and by SYST:ERR? */
static unsigned long long n_limit = 0;
static void limit_sweep(void) {
    static const int codes[] = {-100, -101, -350, -213, 77};
    int ci, T, q1, q2, first, mode;
    for (ci = 0; ci < 5; ci++) for (T = 249; T <= 262; T++) for (first = 0; first < 2; first++) for (q1 = -1; q1 < 6; q1++) for (q2 = q1; q2 < 6; q2++) for (mode = 0; mode < 3; mode++) {
        char text[320], exp[700], one[700];
        int dl = (int) strlen(SCPI_ErrorTranslate((int16_t) codes[ci])), tl = T <= 259 ? T - dl - 1 : T == 260 ? 256 : T == 261 ? 257 : 300, i;      /* 260..262: texts of 256, 257, 300 characters */
        if (q1 < 0 && q2 != q1) continue;
        if (tl < 8) continue;
        for (i = 0; i < tl; i++) text[i] = (char) ('a' + i % 26);
        text[tl] = 0;
        if (first) text[0] = '"';
        text[2] = '\'';                                    /* an apostrophe is an ordinary character of the text */
        if (q1 >= 0) text[tl - 1 - q1] = '"';
        if (q2 >= 0) text[tl - 1 - q2] = '"';
        outn = 0; outbuf[0] = 0;
        in_lib_call = 1;
        SCPI_ErrorClear(&ctx);
        if (mode == 2) { char * src = (char *) __real_malloc((size_t) tl); memcpy(src, text, (size_t) tl); SCPI_ErrorPushEx(&ctx, (int16_t) codes[ci], src, (size_t) tl); __real_free(src); }   /* explicit length, unterminated source */
        else SCPI_ErrorPushEx(&ctx, (int16_t) codes[ci], text, 0);
        n_limit++;
        if (mode == 2 ? 0 : tl > 255) text[255] = 0;          /* automatic length stops at 255 characters */
        if (mode == 0) {
            scpi_error_t e;
            SCPI_ErrorPop(&ctx, &e);
            if (e.error_code != codes[ci]) mcx_viol("c10/pop-order", "pop returned code %d, pushed %d", e.error_code, codes[ci]);
#if INFO
            if (!e.device_dependent_info) mcx_viol("c10/pop-text-missing", "pop of code %d: text of %d characters absent", e.error_code, tl);
            else if (strcmp(e.device_dependent_info, text)) mcx_viol("c10/pop-text-modified", "pop of code %d returned text '%s', pushed '%s'", e.error_code, mc_es(e.device_dependent_info), mc_es(text));
            free(e.device_dependent_info);
#endif
        } else {
            SCPI_Input(&ctx, "SYST:ERR?\n", 10);
            expect_response_text(one, sizeof one, codes[ci], text); snprintf(exp, sizeof exp, "%s\r\n", one);
            if (strcmp(exp, outbuf)) mcx_viol("c10/query-response", "text of %d characters (quotes at first=%d, last-%d, last-%d) behind code %d answered [%s], model expects [%s]", tl, first, q1, q2, codes[ci], mc_es(outbuf), mc_es(exp));
        }
        in_lib_call = 0;
        if (SCPI_ErrorCount(&ctx) != 0) mcx_viol("c10/count", "SCPI_ErrorCount = %d after the only entry was read", (int) SCPI_ErrorCount(&ctx));
        check_ledger();
    }
}

static int apply(int op) {
    const op_t * o = &ops[op];
    int cnt0 = mcount;
    outn = 0; outbuf[0] = 0;
    in_lib_call = 1;
    switch (o->kind) {
        case OP_PUSH: {
            int stored = o->text;
            if (o->fail) { fail_next = 1; stored = 0; }      /* storing the text fails: the error is still queued, without it */
            if (!INFO) stored = 0;
            SCPI_ErrorPushEx(&ctx, o->code, (char *) texts[o->text == 3 ? 2 : o->text], o->text == 3 ? 2 : 0);
            if (fail_next) { fail_next = 0; n_fail_unused++; if (o->fail && INFO && o->text && cnt0 < cap) mcx_viol("c10/harness-alloc-not-requested", "push with text onto a queue that is not full did not request memory for the text"); }      /* a full queue drops the text anyway: the library need not allocate */
            model_push(o->code, stored);
            break;
        }
        case OP_POP: {
            scpi_error_t e;
            ment_t m = model_pop();
            scpi_bool_t r = SCPI_ErrorPop(&ctx, &e);
            n_pops++;
            (void) r;      /* what SCPI_ErrorPop RETURNS is not part of the statement (a variant answers FALSE for an empty queue); code and text are */
            if (e.error_code != m.code) mcx_viol("c10/pop-order", "pop returned code %d, the model FIFO says %d", e.error_code, m.code);
#if INFO
            {
                const char * want = mtext(m.text);
                const char * got = e.device_dependent_info;
                if ((want == NULL) != (got == NULL)) mcx_viol(want ? "c10/pop-text-missing" : "c10/pop-text-unexpected", "pop of code %d: text %s, model %s", e.error_code, got ? "present" : "absent", want ? want : "(none)");
                else if (want && strcmp(want, got)) mcx_viol("c10/pop-text-modified", "pop of code %d returned text '%s', pushed '%s'", e.error_code, mc_es(got), mc_es(want));
                free(e.device_dependent_info);      /* the caller of SCPI_ErrorPop owns the text */
            }
#endif
            break;
        }
        case OP_CLEAR: SCPI_ErrorClear(&ctx); mcount = 0; break;
        case OP_COUNT: break;
        default: {
            char exp[1400], one[700];
            scpi_bool_t r = SCPI_Input(&ctx, o->cmd, (int) strlen(o->cmd));
            n_queries++;
            (void) r;
            exp[0] = 0;
            if (!strcmp(o->cmd, "SYST:ERR?\n")) { expect_response(one, sizeof one, model_pop()); snprintf(exp, sizeof exp, "%s\r\n", one); }
            else if (!strcmp(o->cmd, "SYST:ERR:COUN?\n")) snprintf(exp, sizeof exp, "%d\r\n", mcount);
            else if (!strcmp(o->cmd, "*CLS\n")) { mcount = 0; }
            else { char two[700]; expect_response(one, sizeof one, model_pop()); expect_response(two, sizeof two, model_pop()); snprintf(exp, sizeof exp, "%s;%s\r\n", one, two); }
            if (strcmp(exp, outbuf)) mcx_viol("c10/query-response", "%s answered [%s], model expects [%s]", mc_es(o->cmd), mc_es(outbuf), mc_es(exp));
            break;
        }
    }
    in_lib_call = 0;
    if (SCPI_ErrorCount(&ctx) != mcount) mcx_viol("c10/count", "SCPI_ErrorCount = %d, model = %d", (int) SCPI_ErrorCount(&ctx), mcount);
    check_ledger();
    if (cnt0 != mcount || o->kind == OP_PUSH) n_nontrivial++;
    return 1;
}

int main(int argc, char ** argv) {
    mcx_t m;
    int c, maxcap, nrun = 0, maxdepth = 0, fix = 1;
    unsigned long long states = 0, transitions = 0;
    mc_init(argc, argv);
    memset(longtext, 'L', 300); longtext[254] = '"'; longtext[300] = 0; memcpy(longtext255, longtext, 255); longtext255[255] = 0;
    arena = (char *) mc_xalloc(NSLOT * SLOTSZ);
    maxcap = mc_thorough ? 6 : 4;
    for (c = 1; c <= maxcap; c++) {
        if ((unsigned long long) (maxcap - c) % mc_nshards != mc_shard) continue;
        cap = c;
        build_ops();
        ering = (scpi_error_t *) mc_xalloc(sizeof (scpi_error_t) * (size_t) cap);     /* exact size: an index >= cap traps */
        memset(ering, 0, sizeof (scpi_error_t) * (size_t) cap);
        memset(live, 0, sizeof live); memset(slotlen, 0, sizeof slotlen);
        { int i; for (i = 0; i < NSLOT; i++) slot_poison(i); }
        SCPI_Init(&ctx, cmds, &itf, scpi_units_def, "a", "b", "c", "d", ibuf, sizeof ibuf, ering, (int16_t) cap);
        mcount = 0; memset(model, 0, sizeof model);
        memset(&m, 0, sizeof m);
        m.key_size = sizeof (qkey_t); m.snap_size = sizeof (snap_t); m.nops = nops;
        m.load = st_load; m.save = st_save; m.apply = apply; m.opname = opname;
        m.max_states = 6000000ULL;
        mcx_run(&m);
        states += m.states; transitions += m.transitions; fix &= m.fixpoint; nrun++;
        if (m.depth_reached > maxdepth) maxdepth = m.depth_reached;
        mcx_render_trace(&m, (uint32_t) (m.states - 1), -1);
        mc_sample("capacity=%d config=%s ops=%d states=%llu transitions=%llu depth=%d fixpoint=%d; deepest history: %s", cap, MC_CFG_NAME, nops, m.states, m.transitions, m.depth_reached, m.fixpoint, mcx_tracebuf);
        { size_t i; for (i = 0; i < m.states; i++) mc_outcome(mc_hash(m.keys + i * sizeof (qkey_t), sizeof (qkey_t), (uint64_t) cap)); }
        mcx_free(&m);
        if (c == 2) { mcount = 0; memset(model, 0, sizeof model); SCPI_ErrorClear(&ctx); limit_sweep(); }
        { int i; for (i = 0; i < NSLOT; i++) { live[i] = 0; } }
        ASAN_UNPOISON_MEMORY_REGION(arena, NSLOT * SLOTSZ);
        __real_free(ering);
    }
    mc_stat("states", states);
    mc_stat("transitions", transitions);
    mc_stat("traces_validated", transitions);
    mc_stat("nontrivial", n_nontrivial);
    mc_stat("pops_compared", n_pops);
    mc_stat("overflows", n_overflow);
    mc_stat("queries_compared", n_queries);
    mc_stat("ledger_checks", n_ledger);
    mc_stat("limit_sweep_texts", n_limit);
    mc_stat("allocations", n_alloc);
    mc_stat("frees", n_free);
    mc_stat("injected_alloc_failures", n_failed);
    mc_stat("max_depth", (unsigned long long) maxdepth);
    mc_stat("bfs_runs", (unsigned long long) nrun);
    mc_executed += transitions;
    return mc_finish();
}
