/* ref_pattern.h - reference semantics of SCPI command patterns, written from the C03 statement
 * (SCPI-99 vol.1 ch.6: long/short form mnemonics, optional nodes, numeric suffixes), no code shared
 * with the library's matcher.
 *   pattern  :=  node+ ['?']         node := ':'? KEY['#']   |   '[' ':' KEY['#'] ']'
 *   KEY      :=  upper case short form followed by the lower case rest of the long form
 *   common   :=  '*' KEY ['?']
 * A header (optional leading ':', mnemonics separated by ':', optional trailing '?') is accepted iff it
 * spells, case-insensitively, every mandatory keyword and any subset of the optional ones in pattern
 * order, each in exactly its short or long form, digits only directly behind numeric-suffix keywords,
 * and carries '?' exactly when the pattern does.  On acceptance numbers[] holds the suffix of every
 * numeric-suffix keyword in pattern order, or the caller's default where it was left out / skipped.
 */
#ifndef REF_PATTERN_H
#define REF_PATTERN_H
#include <string.h>
#include <ctype.h>

#define RP_MAXKW 12
typedef struct { char name[40]; int llen, slen; int optional, numeric; } rp_kw_t;
typedef struct { int nkw; rp_kw_t kw[RP_MAXKW]; int query; int common; int ok; } rp_pattern_t;

static rp_pattern_t rp_parse(const char * p) {
    rp_pattern_t r;
    int n = (int) strlen(p), i = 0;
    memset(&r, 0, sizeof r);
    if (n && p[n - 1] == '?') { r.query = 1; n--; }
    if (n && p[0] == '*') r.common = 1;
    while (i < n) {
        rp_kw_t * k;
        int opt = 0, st, j;
        if (r.nkw == RP_MAXKW) return r;
        k = &r.kw[r.nkw];
        if (p[i] == '[') { opt = 1; i++; }
        if (i < n && p[i] == ':') i++;
        st = i;
        while (i < n && p[i] != ':' && p[i] != '[' && p[i] != ']') i++;
        k->llen = i - st;
        if (k->llen <= 0 || k->llen >= (int) sizeof k->name) return r;
        memcpy(k->name, p + st, (size_t) k->llen);
        if (k->name[k->llen - 1] == '#') { k->numeric = 1; k->llen--; }
        k->name[k->llen] = 0;
        for (j = 0; j < k->llen && !islower((unsigned char) k->name[j]); j++) {}
        k->slen = j;
        k->optional = opt;
        if (opt) { if (i >= n || p[i] != ']') return r; i++; }
        r.nkw++;
    }
    r.ok = r.nkw > 0;
    return r;
}

static int rp_ieq(const char * a, const char * b, int n) {
    int i;
    for (i = 0; i < n; i++) if (tolower((unsigned char) a[i]) != tolower((unsigned char) b[i])) return 0;
    return 1;
}

/* does mnemonic m[0..ml) spell keyword k?  *num receives the suffix if digits are present (else untouched) */
static int rp_kw_match(const rp_kw_t * k, const char * m, int ml, long * num, int * hasnum) {
    int forms[2], f, i;
    forms[0] = k->llen; forms[1] = k->slen;
    *hasnum = 0;
    for (f = 0; f < 2; f++) {
        int fl = forms[f];
        if (fl <= 0 || ml < fl || !rp_ieq(k->name, m, fl)) continue;
        if (ml == fl) return 1;
        if (!k->numeric) continue;
        for (i = fl; i < ml; i++) if (!isdigit((unsigned char) m[i])) break;
        if (i < ml) continue;
        { long v = 0; for (i = fl; i < ml; i++) v = v * 10 + (m[i] - '0'); *num = v; *hasnum = 1; }
        return 1;
    }
    return 0;
}

/* h/hl: header.  nums[0..nn): out, prefilled with the default by this function.  returns 1 if accepted */
static int rp_match_rec(const rp_pattern_t * p, int ki, const char ** mn, const int * mlen, int mi, int nm, long * nums, int ni, long def) {
    long v = def;
    int hasnum;
    if (ki == p->nkw) return mi == nm;
    if (mi < nm && rp_kw_match(&p->kw[ki], mn[mi], mlen[mi], &v, &hasnum)) {
        long saved = 0;
        if (p->kw[ki].numeric) { saved = nums[ni]; nums[ni] = hasnum ? v : def; }
        if (rp_match_rec(p, ki + 1, mn, mlen, mi + 1, nm, nums, ni + (p->kw[ki].numeric ? 1 : 0), def)) return 1;
        if (p->kw[ki].numeric) nums[ni] = saved;
    }
    if (p->kw[ki].optional) {
        if (p->kw[ki].numeric) nums[ni] = def;
        return rp_match_rec(p, ki + 1, mn, mlen, mi, nm, nums, ni + (p->kw[ki].numeric ? 1 : 0), def);
    }
    return 0;
}

static int rp_count_numeric(const rp_pattern_t * p) { int i, c = 0; for (i = 0; i < p->nkw; i++) c += p->kw[i].numeric; return c; }

static int rp_match(const rp_pattern_t * p, const char * h, int hl, long * nums, long def) {
    const char * mn[16];
    int mlen[16], nm = 0, i = 0, q = 0, k;
    for (k = 0; k < RP_MAXKW; k++) nums[k] = def;
    if (!p->ok || hl <= 0) return 0;
    if (h[hl - 1] == '?') { q = 1; hl--; }
    if (q != p->query) return 0;
    if (p->common) {
        /* exact mnemonic, no leading colon, no suffix */
        const rp_kw_t * kw = &p->kw[0];
        return p->nkw == 1 && hl == kw->llen && rp_ieq(kw->name, h, hl);
    }
    if (hl > 0 && h[0] == '*') return 0;
    if (hl > 0 && h[0] == ':') i = 1;
    while (i <= hl) {
        int st = i;
        if (nm == 16) return 0;
        while (i < hl && h[i] != ':') i++;
        if (i == st) return 0;                   /* empty mnemonic */
        mn[nm] = h + st; mlen[nm] = i - st; nm++;
        i++;
    }
    return rp_match_rec(p, 0, mn, mlen, 0, nm, nums, 0, def);
}
/* a header spelling derived from the pattern: kind 0 = every keyword in long form (numeric ones with suffix 12), kind 1 = mandatory
 * keywords only, in short form, no suffix; returns its length */
static int rp_probe(const rp_pattern_t * p, int kind, char * out) {
    int k, o = 0, first = 1;
    for (k = 0; k < p->nkw; k++) {
        const rp_kw_t * kw = &p->kw[k];
        int n = kind == 0 ? kw->llen : kw->slen;
        if (kind == 1 && kw->optional) continue;
        if (!first) out[o++] = ':';
        memcpy(out + o, kw->name, (size_t) n); o += n;
        if (kind == 0 && kw->numeric) { out[o++] = '1'; out[o++] = '2'; }
        first = 0;
    }
    if (p->query) out[o++] = '?';
    out[o] = 0;
    return o;
}
#endif
