/* c04_numeric.c - C04: numeric parameters decode to the value their literal denotes.
 * Case file from mc/py_c04.py: decimal literals of the IEEE 488.2 NRf grammar (every sign / point / exponent /
 * white-space placement over short digit strings, long mantissas of 1..25 digits, rounding traps) and nondecimal
 * literals, each with the exactly computed expected result.  Every literal is sent as "R <literal>" through
 * SCPI_Input to handlers using SCPI_ParamDouble, SCPI_ParamFloat, SCPI_ParamNumber and the four integer readers, and to
 * handlers that fetch the token with SCPI_Parameter and convert it with the SCPI_ParamToXxx twin of each reader;
 * the reported values are compared as exact bit patterns.
 * In addition (computed here): every row of the exported unit table x every letter-case combination of its name x
 * {no, one, two} blanks x 8 literals (four with blanks or a tab at the exponent mark) through SCPI_ParamNumber (value x multiplier of the first case-insensitively
 * matching row, its base unit; multipliers of prefix+base names are also compared with IEEE 488.2 table 7-2), and
 * every special mnemonic in short and long form in every letter case.
 */
#include "ctx.h"
#include <ctype.h>
#include "golden_units.h"

enum { RD_DOUBLE, RD_FLOAT, RD_NUMBER, RD_I32, RD_U32, RD_I64, RD_U64 };
static int rd, r_ok;
static double r_d; static float r_f; static scpi_number_t r_n; static int32_t r_i32; static uint32_t r_u32; static int64_t r_i64; static uint64_t r_u64;
static int via_to = 0;       /* 1: the handler fetches the token with SCPI_Parameter and converts it with the SCPI_ParamToXxx twin of the reader */
static scpi_result_t h_r(scpi_t * c) {
    if (via_to && rd != RD_NUMBER) {
        scpi_parameter_t p;
        memset(&p, 0, sizeof p);
        r_ok = 0;
        if (!SCPI_Parameter(c, &p, TRUE)) return SCPI_RES_OK;
        switch (rd) {
            case RD_DOUBLE: r_d = -777; r_ok = SCPI_ParamToDouble(c, &p, &r_d); break;
            case RD_FLOAT: r_f = -777; r_ok = SCPI_ParamToFloat(c, &p, &r_f); break;
            case RD_I32: r_i32 = -777; r_ok = SCPI_ParamToInt32(c, &p, &r_i32); break;
            case RD_U32: r_u32 = 777; r_ok = SCPI_ParamToUInt32(c, &p, &r_u32); break;
            case RD_I64: r_i64 = -777; r_ok = SCPI_ParamToInt64(c, &p, &r_i64); break;
            default: r_u64 = 777; r_ok = SCPI_ParamToUInt64(c, &p, &r_u64); break;
        }
        return SCPI_RES_OK;
    }
    switch (rd) {
        case RD_DOUBLE: r_d = -777; r_ok = SCPI_ParamDouble(c, &r_d, TRUE); break;
        case RD_FLOAT: r_f = -777; r_ok = SCPI_ParamFloat(c, &r_f, TRUE); break;
        case RD_NUMBER: memset(&r_n, 0, sizeof r_n); r_ok = SCPI_ParamNumber(c, scpi_special_numbers_def, &r_n, TRUE); break;
        case RD_I32: r_i32 = -777; r_ok = SCPI_ParamInt32(c, &r_i32, TRUE); break;
        case RD_U32: r_u32 = 777; r_ok = SCPI_ParamUInt32(c, &r_u32, TRUE); break;
        case RD_I64: r_i64 = -777; r_ok = SCPI_ParamInt64(c, &r_i64, TRUE); break;
        default: r_u64 = 777; r_ok = SCPI_ParamUInt64(c, &r_u64, TRUE); break;
    }
    return SCPI_RES_OK;
}
static const scpi_command_t cmds[] = { {"R", h_r, 1}, SCPI_CMD_LIST_END };
static tc_t T;
static unsigned long long n_calls = 0, n_nontrivial = 0, n_ws_exp = 0;

static int delivery = 0;     /* 0: "R <lit>" NL;  1: "R 987654321.75e1" NL "R <lit>" in ONE call, then a zero-length flush */
static int send(const char * lit, size_t ll, int reader) {
    char msg[400];
    size_t ml = 0;
    if (delivery) { memcpy(msg, "R 987654321.75e1\n", 17); ml = 17; }
    msg[ml++] = 'R'; msg[ml++] = ' '; memcpy(msg + ml, lit, ll); ml += ll;
    if (!delivery) msg[ml++] = '\n';
    rd = reader; r_ok = -1;
    tr_reset();
    SCPI_Input(&T.ctx, msg, (int) ml);
    if (delivery) { r_ok = -1; SCPI_Input(&T.ctx, NULL, 0); n_calls++; }
    n_calls++;
    if (T.ctx.buffer.position) tc_reinit(&T, cmds);
    return r_ok == 1 && tc_nerr == 0;
}

static void bad(const char * cls, const char * reader, const char * lit, size_t ll, const char * got, const char * want) {
    char sig[96];
    snprintf(sig, sizeof sig, "c04/%s/%s%s", cls, reader, via_to ? "/via-SCPI_Parameter+ParamTo" : "");
    mc_viol(sig, "literal [%s] read with %s: %s, expected %s (accepted=%d, errors=%d%s)", mc_e(lit, ll), reader, got, want, r_ok, tc_nerr, tc_nerr ? "" : "");
}

static const char * lit_class(const char * lit, size_t ll) {
    size_t i; int ws = 0, ex = 0;
    for (i = 0; i < ll; i++) { if (lit[i] == ' ' || lit[i] == '\t') ws = 1; if (lit[i] == 'e' || lit[i] == 'E') ex = 1; }
    if (lit[0] == '#') return "nondecimal";
    if (ws) return "decimal-with-blank-at-exponent";
    if (ll > 18) return "decimal-long-mantissa";
    return ex ? "decimal-with-exponent" : "decimal";
}

static void check_decimal(const char * lit, size_t ll, uint64_t dbits, uint32_t fbits, char ints[4][32]) {
    char got[80], want[80];
    uint64_t gb; uint32_t gf;
    const char * cls = lit_class(lit, ll);
    int k;
    if (strstr(cls, "blank")) n_ws_exp++;
    if (!send(lit, ll, RD_DOUBLE)) { bad(cls, "SCPI_ParamDouble", lit, ll, "not accepted", "a value"); return; }
    memcpy(&gb, &r_d, 8);
    if (gb != dbits) { double w; memcpy(&w, &dbits, 8); snprintf(got, sizeof got, "%.17g (0x%016llx)", r_d, (unsigned long long) gb); snprintf(want, sizeof want, "%.17g (0x%016llx)", w, (unsigned long long) dbits); bad(cls, "SCPI_ParamDouble", lit, ll, got, want); return; }
    if (!send(lit, ll, RD_FLOAT)) { bad(cls, "SCPI_ParamFloat", lit, ll, "not accepted", "a value"); return; }
    memcpy(&gf, &r_f, 4);
    if (gf != fbits) {
        float w, viad; double ed; uint32_t vb;
        memcpy(&w, &fbits, 4); memcpy(&ed, &dbits, 8); viad = (float) ed; memcpy(&vb, &viad, 4);
        snprintf(got, sizeof got, "%.9g (0x%08x)", (double) r_f, gf); snprintf(want, sizeof want, "%.9g (0x%08x)", (double) w, fbits);
        /* its own class: exactly the value obtained by rounding the literal to double first and to float afterwards (what a build
         * without strtof does) - a known finding of the strict C90 configuration, nothing else is filed under it */
#ifdef MC_CFG_C90
        /* only in the strict C90 build, where the library has no strtof: everywhere else this is an ordinary violation */
        if (gf == vb) { mc_viol("c04/float/double-rounding-via-strtod", "literal [%s] read with SCPI_ParamFloat: %s, the nearest float is %s; the result equals (float) of the nearest double (rounded twice)", mc_e(lit, ll), got, want); return; }
#else
        (void) vb;
#endif
        bad(cls, "SCPI_ParamFloat", lit, ll, got, want); return;
    }
    if (!send(lit, ll, RD_NUMBER)) { bad(cls, "SCPI_ParamNumber", lit, ll, "not accepted", "a value"); return; }
    memcpy(&gb, &r_n.content.value, 8);
    if (gb != dbits || r_n.special || r_n.unit != SCPI_UNIT_NONE || r_n.base != 10) { snprintf(got, sizeof got, "%.17g special=%d unit=%d base=%d", r_n.content.value, (int) r_n.special, (int) r_n.unit, (int) r_n.base); bad(cls, "SCPI_ParamNumber", lit, ll, got, "the same value as SCPI_ParamDouble, no unit, base 10"); return; }
    for (k = 0; k < 4; k++) {
        static const char * nm[4] = {"SCPI_ParamInt32", "SCPI_ParamUInt32", "SCPI_ParamInt64", "SCPI_ParamUInt64"};
        if (ints[k][0] == '-' && ints[k][1] == 0) continue;
        if (!send(lit, ll, RD_I32 + k)) { bad("integer", nm[k], lit, ll, "not accepted", ints[k]); return; }
        if (k == 0) snprintf(got, sizeof got, "%d", r_i32); else if (k == 1) snprintf(got, sizeof got, "%u", r_u32); else if (k == 2) snprintf(got, sizeof got, "%lld", (long long) r_i64); else snprintf(got, sizeof got, "%llu", (unsigned long long) r_u64);
        if (strcmp(got, ints[k])) { bad("integer", nm[k], lit, ll, got, ints[k]); return; }
    }
    n_nontrivial++;
    mc_outcome(dbits);
}

static void check_nondecimal(const char * lit, size_t ll, const char * vtext, int nbits, uint64_t dbits, uint32_t fbits) {
    char got[80];
    uint64_t v = strtoull(vtext, NULL, 10), gb; uint32_t gf;
    int base = (lit[1] == 'H' || lit[1] == 'h') ? 16 : (lit[1] == 'Q' || lit[1] == 'q') ? 8 : 2;
    if (nbits <= 32) {
        if (!send(lit, ll, RD_U32) || r_u32 != (uint32_t) v) { snprintf(got, sizeof got, "%u", r_u32); bad("nondecimal", "SCPI_ParamUInt32", lit, ll, got, vtext); return; }
        if (!send(lit, ll, RD_I32) || (uint32_t) r_i32 != (uint32_t) v) { snprintf(got, sizeof got, "%d", r_i32); bad("nondecimal", "SCPI_ParamInt32", lit, ll, got, vtext); return; }
        if (!send(lit, ll, RD_FLOAT)) { bad("nondecimal", "SCPI_ParamFloat", lit, ll, "not accepted", vtext); return; }
        memcpy(&gf, &r_f, 4);
        if (gf != fbits) { snprintf(got, sizeof got, "%.9g", (double) r_f); bad("nondecimal", "SCPI_ParamFloat", lit, ll, got, vtext); return; }
    }
    if (nbits <= 64) {
        if (!send(lit, ll, RD_U64) || r_u64 != v) { snprintf(got, sizeof got, "%llu", (unsigned long long) r_u64); bad("nondecimal", "SCPI_ParamUInt64", lit, ll, got, vtext); return; }
        if (!send(lit, ll, RD_I64) || (uint64_t) r_i64 != v) { snprintf(got, sizeof got, "%lld", (long long) r_i64); bad("nondecimal", "SCPI_ParamInt64", lit, ll, got, vtext); return; }
        if (!send(lit, ll, RD_DOUBLE)) { bad("nondecimal", "SCPI_ParamDouble", lit, ll, "not accepted", vtext); return; }
        memcpy(&gb, &r_d, 8);
        if (gb != dbits) { snprintf(got, sizeof got, "%.17g", r_d); bad("nondecimal", "SCPI_ParamDouble", lit, ll, got, vtext); return; }
        if (!send(lit, ll, RD_NUMBER)) { bad("nondecimal", "SCPI_ParamNumber", lit, ll, "not accepted", vtext); return; }
        memcpy(&gb, &r_n.content.value, 8);
        if (gb != dbits || r_n.base != base || r_n.special || r_n.unit != SCPI_UNIT_NONE) { snprintf(got, sizeof got, "%.17g base=%d", r_n.content.value, (int) r_n.base); bad("nondecimal", "SCPI_ParamNumber", lit, ll, got, vtext); return; }
    }
    n_nontrivial++;
    mc_outcome(v * 31 + (uint64_t) base);
}

/* ---- units and special numbers (no Python needed: literals are exactly representable) ---- */
static int ieq(const char * a, const char * b) { while (*a && *b) { if (tolower((unsigned char) *a) != tolower((unsigned char) *b)) return 0; a++; b++; } return *a == *b; }

static void check_units(void) {
    static const struct { const char * p; double m; } pre[] = { {"EX", 1e18}, {"PE", 1e15}, {"T", 1e12}, {"G", 1e9}, {"MA", 1e6}, {"K", 1e3}, {"M", 1e-3}, {"U", 1e-6}, {"N", 1e-9}, {"P", 1e-12}, {"F", 1e-15}, {"A", 1e-18} };
    static const struct { const char * t; double v; } lits[8] = { {"1", 1.0}, {"2.5", 2.5}, {"-3e2", -300.0}, {".5", 0.5}, {"1.5 E3", 1500.0}, {"2E 2", 200.0}, {"+4 e -2", 0.04}, {"12\tE+1", 120.0} };
    int u, first, p, b;
    for (u = 0; scpi_units_def[u].name; u++) {
        const char * name = scpi_units_def[u].name;
        size_t nl = strlen(name), mask;
        int sep, l;
        /* the row that a lookup of this name must find: the first one with the same (case-insensitive) name */
        for (first = 0; first < u; first++) if (ieq(scpi_units_def[first].name, name)) break;
        /* golden multipliers of IEEE 488.2 table 7-2 for <prefix><base unit> names */
        if (MC_CASE()) {
            mc_case_tag = "unit-table-row"; mc_case_s[0] = (const unsigned char *) name; mc_case_n[0] = nl;
            for (p = 0; p < 12; p++) {
                size_t pl = strlen(pre[p].p);
                if (nl <= pl || strncmp(name, pre[p].p, pl)) continue;
                for (b = 0; scpi_units_def[b].name; b++) {
                    double want = pre[p].m;
                    if (scpi_units_def[b].mult != 1 || scpi_units_def[b].unit != scpi_units_def[u].unit || strcmp(scpi_units_def[b].name, name + pl)) continue;
                    if (!strcmp(pre[p].p, "M") && (!strcmp(name + pl, "OHM") || !strcmp(name + pl, "HZ"))) want = 1e6;
                    if (scpi_units_def[u].mult != want) mc_viol("c04/unit-table/multiplier", "unit table row [%s] has multiplier %g, IEEE 488.2 table 7-2 says %g for prefix %s", name, scpi_units_def[u].mult, want, pre[p].p);
                }
            }
        }
        if (nl > 6) continue;
        for (mask = 0; mask < ((size_t) 1 << nl); mask++) for (sep = 0; sep < 3; sep++) for (l = 0; l < 8; l++) {
            char lit[64], got[96], want[96];
            size_t o, i;
            double expv;
            if (!MC_CASE()) continue;
            o = (size_t) sprintf(lit, "%s%s", lits[l].t, sep == 0 ? "" : sep == 1 ? " " : "  ");
            for (i = 0; i < nl; i++) lit[o++] = (char) ((mask >> i) & 1 ? tolower((unsigned char) name[i]) : name[i]);
            mc_case_tag = "unit"; mc_case_s[0] = (const unsigned char *) lit; mc_case_n[0] = o;
            expv = lits[l].v * scpi_units_def[first].mult;
            if (!send(lit, o, RD_NUMBER)) { bad("suffix", "SCPI_ParamNumber", lit, o, "not accepted", "value x multiplier"); return; }
            if (r_n.special || r_n.content.value != expv || r_n.unit != scpi_units_def[first].unit || r_n.base != 10) {
                snprintf(got, sizeof got, "%.17g unit %d special %d", r_n.content.value, (int) r_n.unit, (int) r_n.special);
                snprintf(want, sizeof want, "%.17g unit %d (%s x %g)", expv, (int) scpi_units_def[first].unit, lits[l].t, scpi_units_def[first].mult);
                bad("suffix", "SCPI_ParamNumber", lit, o, got, want); return;
            }
            n_nontrivial++;
        }
    }
}

/* the special mnemonics of SCPI-99 vol.1 7.2.1 / the library's documentation, written out: the exported table is not its own oracle */
static const struct { const char * name; int tag; } golden_specials[] = {
    {"MINimum", SCPI_NUM_MIN}, {"MAXimum", SCPI_NUM_MAX}, {"DEFault", SCPI_NUM_DEF}, {"UP", SCPI_NUM_UP}, {"DOWN", SCPI_NUM_DOWN},
    {"NAN", SCPI_NUM_NAN}, {"INFinity", SCPI_NUM_INF}, {"NINF", SCPI_NUM_NINF}, {"AUTO", SCPI_NUM_AUTO}, {NULL, 0} };

static void check_golden_tables(void) {
    int g, u;
    for (g = 0; golden_units[g].name; g++) {
        char lit[32]; int ll;
        if (!MC_CASE()) continue;
        mc_case_tag = "golden-unit"; mc_case_s[0] = (const unsigned char *) golden_units[g].name; mc_case_n[0] = strlen(golden_units[g].name);
        for (u = 0; scpi_units_def[u].name; u++) if (ieq(scpi_units_def[u].name, golden_units[g].name)) break;
        if (!scpi_units_def[u].name) { mc_viol("c04/unit-table/row-missing", "unit suffix [%s] is not in the exported unit table", golden_units[g].name); continue; }
        if (scpi_units_def[u].unit != golden_units[g].unit || scpi_units_def[u].mult != golden_units[g].mult)
            mc_viol("c04/unit-table/row-differs", "unit table row [%s]: unit %d multiplier %.17g, expected unit %d multiplier %.17g", golden_units[g].name, (int) scpi_units_def[u].unit, scpi_units_def[u].mult, (int) golden_units[g].unit, golden_units[g].mult);
        ll = sprintf(lit, "3 %s", golden_units[g].name);
        if (!send(lit, (size_t) ll, RD_NUMBER) || r_n.special || r_n.unit != golden_units[g].unit || r_n.content.value != 3 * golden_units[g].mult)
            mc_viol("c04/suffix/golden", "literal [%s] read with SCPI_ParamNumber: accepted=%d value %.17g unit %d, expected %.17g unit %d", lit, r_ok, r_n.content.value, (int) r_n.unit, 3 * golden_units[g].mult, (int) golden_units[g].unit);
        else n_nontrivial++;
    }
    for (g = 0; golden_specials[g].name; g++) {
        int form;
        for (form = 0; form < 2; form++) {
            char lit[32]; size_t fl = 0;
            if (!MC_CASE()) continue;
            while (golden_specials[g].name[fl] && (form || !islower((unsigned char) golden_specials[g].name[fl]))) { lit[fl] = golden_specials[g].name[fl]; fl++; }
            mc_case_tag = "golden-special"; mc_case_s[0] = (const unsigned char *) lit; mc_case_n[0] = fl;
            if (!send(lit, fl, RD_NUMBER) || !r_n.special || r_n.content.tag != golden_specials[g].tag)
                mc_viol("c04/special-mnemonic/golden", "literal [%s] read with SCPI_ParamNumber: accepted=%d special=%d tag=%d, expected special tag %d", mc_e(lit, fl), r_ok, (int) r_n.special, (int) r_n.content.tag, golden_specials[g].tag);
            else n_nontrivial++;
        }
    }
}

static void check_specials(void) {
    int s, form;
    for (s = 0; scpi_special_numbers_def[s].name; s++) {
        const char * name = scpi_special_numbers_def[s].name;
        size_t ll = strlen(name), sl = 0, mask;
        while (sl < ll && !islower((unsigned char) name[sl])) sl++;
        for (form = 0; form < 2; form++) {
            size_t fl = form ? ll : sl;
            if (form && sl == ll) continue;
            for (mask = 0; mask < ((size_t) 1 << fl); mask++) {
                char lit[32], got[64], want[64]; size_t i;
                if (!MC_CASE()) continue;
                for (i = 0; i < fl; i++) lit[i] = (char) ((mask >> i) & 1 ? tolower((unsigned char) name[i]) : toupper((unsigned char) name[i]));
                mc_case_tag = "special"; mc_case_s[0] = (const unsigned char *) lit; mc_case_n[0] = fl;
                if (!send(lit, fl, RD_NUMBER) || !r_n.special || r_n.content.tag != scpi_special_numbers_def[s].tag) {
                    snprintf(got, sizeof got, "special=%d tag=%d", (int) r_n.special, (int) r_n.content.tag); snprintf(want, sizeof want, "special tag %d", (int) scpi_special_numbers_def[s].tag);
                    bad("special-mnemonic", "SCPI_ParamNumber", lit, fl, got, want); return;
                }
                n_nontrivial++;
            }
        }
    }
}

static size_t unhex(const char * h, char * out) {
    size_t n = 0;
    while (isxdigit((unsigned char) h[0]) && isxdigit((unsigned char) h[1])) { char b[3] = {h[0], h[1], 0}; out[n++] = (char) strtoul(b, NULL, 16); h += 2; }
    return n;
}

int main(int argc, char ** argv) {
    FILE * f;
    static char line[1200];
    mc_init(argc, argv);
    mc_tail_poison = 1;
    if (!mc_aux_path || !(f = fopen(mc_aux_path, "r"))) { printf("VIOL idx=0 sig=c04/harness :: no case file\n"); return 2; }
    tc_init(&T, cmds, 300, 8);
    while (fgets(line, sizeof line, f)) {
        char lit[400], * p;
        size_t ll;
        if (!MC_CASE()) continue;
        ll = unhex(line + 2, lit);
        mc_case_tag = "literal"; mc_case_s[0] = (const unsigned char *) lit; mc_case_n[0] = ll;
        p = strchr(line + 2, ' ');
        if (!p) continue;
        if (line[0] == 'N') {
            unsigned long long d; unsigned fbits; char ints[4][32];
            if (sscanf(p, "%llx %x %31s %31s %31s %31s", &d, &fbits, ints[0], ints[1], ints[2], ints[3]) != 6) continue;
            check_decimal(lit, ll, d, (uint32_t) fbits, ints);
            via_to = 1; check_decimal(lit, ll, d, (uint32_t) fbits, ints); via_to = 0;
            /* every 4th literal also behind another message in the same input call, executed by a flush (nothing
             * terminates the literal there except the library's own NUL) */
            if ((mc_idx & 3) == 0 && ll < 300) { delivery = 1; check_decimal(lit, ll, d, (uint32_t) fbits, ints); delivery = 0; }
        } else {
            char v[40]; int nbits; unsigned long long d; unsigned fbits;
            if (sscanf(p, "%39s %d %llx %x", v, &nbits, &d, &fbits) != 4) continue;
            check_nondecimal(lit, ll, v, nbits, d, (uint32_t) fbits);
            via_to = 1; check_nondecimal(lit, ll, v, nbits, d, (uint32_t) fbits); via_to = 0;
        }
    }
    fclose(f);
    check_units();
    check_golden_tables();
    check_specials();
    if (mc_shard == 0) {
        mc_sample("literal [+15.05  E -23] through SCPI_ParamDouble / SCPI_ParamFloat / SCPI_ParamNumber vs exactly rounded 1.505e-22");
        mc_sample("literal [9007199254740993] (2^53 + 1, a tie) -> 9007199254740992");
        mc_sample("literal [2.5  mOhM] through SCPI_ParamNumber -> 2500000 OHM");
    }
    mc_stat("impl_calls", n_calls);
    mc_stat("nontrivial", n_nontrivial);
    mc_stat("literals_with_blank_at_exponent", n_ws_exp);
    tc_free(&T);
    return mc_finish();
}
