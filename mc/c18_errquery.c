/* c18_errquery.c - C18: the error query always yields one well-formed, bounded error response.
 * Bounded-exhaustive:
 *   (a) all 65536 codes without text: response = <code>,"<description>", description from the X-macro list or the
 *       fallback, queue entry consumed;
 *   (b) one code per distinct description length (and the fallback): texts of length {0..8} u {B-6..B+6} u {300, 400}
 *       (B = 254 - description length: the text position where the 255-character limit falls) with 0..3 double
 *       quotes at every combination of positions inside the windows [0,8) and [B-6,B+6), and a single quote at every
 *       window position; malloc build and static-heap build (heap positions that make the stored text wrap).
 * Oracle: independent reader of the response: <code> ',' '"' content '"' CR LF with every '"' of the content
 * doubled; the unescaped content is a prefix of description[;text]; escaped content <= 255 characters and cut as
 * late as the limit allows.
 */
#include "ctx.h"
#include "scpi/error.h"

static const struct { int code; const char * text; } errlist[] = {
#define X(def, val, str) {val, str},
#define XE X
    LIST_OF_ERRORS
#undef X
#undef XE
};
#define NERRLIST ((int) (sizeof errlist / sizeof errlist[0]))

static const char * description(int code) {
    int i;
    for (i = 0; i < NERRLIST; i++) if (errlist[i].code == code) return errlist[i].text;
    return "Unknown error";
}

static const scpi_command_t cmds[] = { {"SYSTem:ERRor[:NEXT]?", SCPI_SystemErrorNextQ, 1}, SCPI_CMD_LIST_END };
static tc_t T, T2;       /* T2: queue of 2 entries for the histories (overflow after two pushes) */
static unsigned long long n_cases = 0, n_nontrivial = 0, n_cut = 0, n_quoted = 0;

/* returns NULL if fine, else the reason */
static const char * check_response(int code, const char * text, size_t tl, int has_text) {
    char exp_prefix[16], src[1200], un[1200];
    size_t pl, sl, i, ul = 0, esc = 0, k;
    const char * d = description(code);
    pl = (size_t) snprintf(exp_prefix, sizeof exp_prefix, "%d,\"", code);
    if (OUTN < pl + 3 || memcmp(OUT, exp_prefix, pl)) return "code-or-opening";
    if (memcmp(OUT + OUTN - 3, "\"\r\n", 3)) return "closing-quote-or-terminator";
    /* content between the outer quotes: every quote must be doubled */
    for (i = pl; i < OUTN - 3; i++) {
        if (OUT[i] == '"') { if (i + 1 >= OUTN - 3 || OUT[i + 1] != '"') return "unescaped-quote-in-content"; un[ul++] = '"'; i++; esc += 2; }
        else { un[ul++] = OUT[i]; esc++; }
    }
    if (esc > 255) return "content-longer-than-255";
    sl = (size_t) snprintf(src, sizeof src, "%s", d);
    if (has_text) { src[sl++] = ';'; memcpy(src + sl, text, tl); sl += tl; }
    if (ul > sl || memcmp(un, src, ul)) {
        if (has_text && tl == 0 && ul == sl - 1 && !memcmp(un, src, ul)) return NULL;     /* empty text: "description" alone is fine too */
        return "content-not-a-prefix-of-description-and-text";
    }
    if (has_text && tl == 0 && ul == sl - 1) return NULL;
    if (ul < sl) {
        size_t cost = src[ul] == '"' ? 2 : 1;
        if (esc + cost <= 255) return "cut-earlier-than-the-limit-requires";
        n_cut++;
    }
    for (k = 0; k < ul; k++) if (un[k] == '"') { n_quoted++; break; }
    return NULL;
}

static void run_case(int code, const char * text, size_t tl, int has_text, int prefill) {
    const char * why;
    int before;
    tc_reinit(&T, cmds);
#if USE_DEVICE_DEPENDENT_ERROR_INFORMATION && !USE_MEMORY_ALLOCATION_FREE
    if (prefill > 0) {       /* move the heap write position so that the text wraps around the end */
        char * fill = (char *) malloc((size_t) prefill + 1); char dummy[8];
        memset(fill, 'f', (size_t) prefill); fill[prefill] = 0;
        SCPI_ErrorPushEx(&T.ctx, -100, fill, (size_t) prefill);
        SCPI_ErrorPushEx(&T.ctx, -100, "k", 1);
        tc_pop(&T, dummy, sizeof dummy);       /* frees the filler: write position stays behind it */
        tc_pop(&T, dummy, sizeof dummy);
        free(fill);
    }
#else
    (void) prefill;
#endif
    tr_reset();
    if (has_text) {
        /* exact size; with an explicit length the source need not be terminated (the parser itself passes a
         * pointer into the input buffer for -113) */
        char * t = (char *) malloc(tl ? tl : 1);
        if (tl) { memcpy(t, text, tl); SCPI_ErrorPushEx(&T.ctx, (int16_t) code, t, tl); }
        else { t[0] = 0; SCPI_ErrorPushEx(&T.ctx, (int16_t) code, t, 0); }
        free(t);
    } else SCPI_ErrorPush(&T.ctx, (int16_t) code);
    before = (int) SCPI_ErrorCount(&T.ctx);
    tr_reset();
    SCPI_Input(&T.ctx, "SYST:ERR?\n", 10);
    n_cases++;
#if USE_DEVICE_DEPENDENT_ERROR_INFORMATION && !USE_MEMORY_ALLOCATION_FREE
    /* the static heap may have refused the text (too long for the free space): then "no text" is the right answer */
    if (has_text) { const char * d = description(code); size_t dl = strlen(d); char pre[16]; size_t pl = (size_t) snprintf(pre, sizeof pre, "%d,\"", code);
        if (OUTN == pl + dl + 3 && !memcmp(OUT + pl, d, dl) && tl + 1 > T.heap_len - (size_t) (prefill > 0 ? 0 : 0)) has_text = 0; }
#endif
    why = check_response(code, text, tl, has_text);
#if !USE_DEVICE_DEPENDENT_ERROR_INFORMATION
    if (why && has_text) why = check_response(code, text, tl, 0);
#endif
    if (!why && (before != 1 || SCPI_ErrorCount(&T.ctx) != 0)) why = "entry-not-consumed";
    if (!why && tc_flushes != 1) why = "flush-count";
    if (why) {
        char sig[96];
        snprintf(sig, sizeof sig, "c18/%s", why);
        mc_viol(sig, "code %d text [%s] (%d chars, heap prefill %d): response [%s]", code, mc_e(text, tl < 300 ? tl : 300), (int) tl, prefill, mc_e(OUT, OUTN));
        return;
    }
    n_nontrivial++;
    mc_outcome(mc_hash(OUT, OUTN, 0));
}

int main(int argc, char ** argv) {
    long code;
    int reps[64], nreps = 0, seenlen[128], i, r;
    mc_init(argc, argv);
    tc_heap_len = 700;
    tc_init(&T, cmds, 32, 4);
    tc_init(&T2, cmds, 32, 2);
    /* (a) every code without text */
    for (code = -32768; code <= 32767; code++) {
        if (!MC_CASE()) continue;
        mc_case_tag = "code"; mc_case_i[0] = code;
        run_case((int) code, "", 0, 0, 0);
    }
    /* (b) representatives: one code per distinct description length + a code without table entry */
    memset(seenlen, 0, sizeof seenlen);
    for (i = 0; i < NERRLIST; i++) { size_t l = strlen(errlist[i].text); if (l < 128 && !seenlen[l] && errlist[i].code != 0) { seenlen[l] = 1; reps[nreps++] = errlist[i].code; } }
    reps[nreps++] = 12345;
    for (r = 0; r < nreps; r++) {
        int dl = (int) strlen(description(reps[r])), B = 254 - dl, li;
        int lens[60], nl = 0, w[40], nw = 0, a, b, c, hw = mc_thorough ? 10 : 6;
        for (li = 0; li <= 8; li++) lens[nl++] = li;
        for (li = B - hw; li <= B + hw; li++) lens[nl++] = li;
        lens[nl++] = 300; lens[nl++] = 400;
        for (li = 0; li < 8; li++) w[nw++] = li;
        for (li = B - hw; li < B + hw; li++) w[nw++] = li;
        for (li = 0; li < nl; li++) {
            int tl = lens[li];
            /* quote placements: a <= b <= c over window indices, -1 = none; equal indices collapse */
            for (a = -1; a < nw; a++) for (b = a; b < nw; b++) for (c = b; c < nw; c++) {
                static char text[512];
                int k, q, prefill;
                if (a == -1 && b != -1) { if (!(b == c)) { /* one quote: a=-1,b=c */ } }
                if (a >= 0 && (a == b || b == c)) continue;
                if (a == -1 && b >= 0 && b != c && 0) continue;
                if ((a >= 0 && w[a] >= tl) || (b >= 0 && w[b] >= tl) || (c >= 0 && w[c] >= tl)) continue;
                for (q = 0; q < 2; q++) {
                    if (q == 1 && !(a == -1 && b == -1 && c >= 0)) continue;          /* single-quote character: one position at a time */
                    for (prefill = 0; prefill <= 1; prefill++) {
#if !(USE_DEVICE_DEPENDENT_ERROR_INFORMATION && !USE_MEMORY_ALLOCATION_FREE)
                        if (prefill) continue;
#endif
                        if (!MC_CASE()) continue;
                        for (k = 0; k < tl; k++) text[k] = (char) ('a' + k % 26);
                        if (a >= 0) text[w[a]] = '"';
                        if (b >= 0) text[w[b]] = '"';
                        if (c >= 0) text[w[c]] = q ? '\'' : '"';
                        mc_case_tag = "text"; mc_case_i[0] = reps[r]; mc_case_i[1] = tl; mc_case_i[2] = a >= 0 ? w[a] : -1; mc_case_i[3] = b >= 0 ? w[b] : -1; mc_case_i[4] = c >= 0 ? w[c] : -1;
                        run_case(reps[r], text, (size_t) tl, 1, prefill ? (int) (tc_heap_len - 40 - (size_t) (tl % 37)) : 0);
                    }
                }
            }
        }
    }
#if USE_DEVICE_DEPENDENT_ERROR_INFORMATION
    /* (c) histories: several queued errors whose texts share the storage (static heap: wrap-around, exact fit at the
     *     heap end, reuse of the heap start): every sequence of <= 6 operations over {push a text of 3, 7, 11, 15, 19
     *     characters with a double quote inside, SYST:ERR?}; every response must be well formed and carry exactly the
     *     text of ITS error (or, in the static-heap build, no text when the heap was full) */
    {
        static const int plen[5] = {3, 7, 11, 15, 19};
        int K = mc_thorough ? 8 : 7, k, st[8], hs, i2;
        for (hs = 0; hs < 3; hs++) for (k = 2; k <= K; k++) {
            for (i2 = 0; i2 < k; i2++) st[i2] = 0;
            for (;;) {
                if (MC_CASE()) {
                    char texts[8][24]; int tl[8], codes[8], head = 0, tail = 0, n;
                    mc_case_tag = "history"; mc_case_i[0] = hs; mc_case_i[1] = k; for (i2 = 0; i2 < k && i2 < 4; i2++) mc_case_i[2 + i2] = st[i2];
                    tc_reinit(&T2, cmds);
#if !USE_MEMORY_ALLOCATION_FREE
                    SCPI_InitHeap(&T2.ctx, T2.heap, (size_t) (hs == 0 ? 24 : hs == 1 ? 32 : 40));
#endif
                    for (n = 0; n < k; n++) {
                        if (st[n] < 5) {
                            int l = plen[st[n]], j;
                            if (tail - head >= 2) {             /* queue (capacity 2) full: the newest entry becomes -350 without text */
                                char tmp[24];
                                for (j = 0; j < l; j++) tmp[j] = 'z'; tmp[l] = 0;
                                SCPI_ErrorPushEx(&T2.ctx, -222, tmp, (size_t) l);
                                codes[(tail - 1) & 7] = -350; tl[(tail - 1) & 7] = -1;
                                continue;
                            }
                            for (j = 0; j < l; j++) texts[tail & 7][j] = (char) ('A' + (tail % 20)); texts[tail & 7][1] = '"'; texts[tail & 7][l - 2] = '"'; texts[tail & 7][l] = 0; tl[tail & 7] = l; codes[tail & 7] = -222;
                            { char * src = (char *) malloc((size_t) l); memcpy(src, texts[tail & 7], (size_t) l); SCPI_ErrorPushEx(&T2.ctx, -222, src, (size_t) l); free(src); }
                            tail++;
                        } else {
                            const char * why;
                            tr_reset();
                            SCPI_Input(&T2.ctx, "SYST:ERR?\n", 10);
                            n_cases++;
                            if (head == tail) why = check_response(0, "", 0, 0);
                            else {
                                if (tl[head & 7] < 0) why = check_response(codes[head & 7], "", 0, 0);
                                else {
                                    why = check_response(codes[head & 7], texts[head & 7], (size_t) tl[head & 7], 1);
#if !USE_MEMORY_ALLOCATION_FREE
                                    if (why) { if (!check_response(codes[head & 7], "", 0, 0)) why = NULL; }       /* heap full at push time: no text */
#endif
                                }
                                head++;
                            }
                            if (why) { char sig[96]; snprintf(sig, sizeof sig, "c18/history/%s", why); mc_viol(sig, "heap variant %d, operation %d of history: response [%s]", hs, n, mc_e(OUT, OUTN)); break; }
                            n_nontrivial++;
                        }
                    }
                }
                for (i2 = k - 1; i2 >= 0; i2--) { if (++st[i2] < 6) break; st[i2] = 0; }
                if (i2 < 0) break;
            }
#if USE_MEMORY_ALLOCATION_FREE
            if (k == K) hs = 3;
#endif
        }
    }
#endif
    if (mc_shard == 0) {
        mc_sample("code -113 text of 238 chars with a double quote at text index 237 (the 255th content character): the quote must be dropped, not half-emitted");
        mc_sample("every code -32768..32767 without text");
        mc_sample("code 12345 (no table entry) text of 400 chars with quotes at 0, 3, 7");
    }
    mc_stat("impl_calls", n_cases);
    mc_stat("nontrivial", n_nontrivial);
    mc_stat("responses_cut_at_255", n_cut);
    mc_stat("responses_with_doubled_quote", n_quoted);
    tc_free(&T); tc_free(&T2);
    return mc_finish();
}
