/* c05_params.c - C05: wrong, missing or surplus parameters raise the right error, never mis-delivered.
 * Bounded-exhaustive: every handler signature of 0..2 (thorough 0..3) typed reads - reader in {Int32, UInt64,
 * Double, Bool, Choice, Number, Characters, CopyText, ArbitraryBlock, ArrayInt32[3]} x {mandatory, optional},
 * handler returning OK or ERR, stopping or not at the first failed read - against every parameter list of 0..3
 * items over 14 well-formed data items of every type and 4 malformed fragments, in 4 white-space styles
 * around the commas.  Message = "CMD" [blank list] NL through SCPI_Input on a fresh context.
 * Oracle: a model of the statement, driven by the reference tokenizer (ref_lex.h) on the actual message text:
 *   malformed unit  => handler never runs, >= 1 error, all errors in -100..-199, SCPI_Input returns FALSE
 *   well-formed     => per read: absent+mandatory -109 / absent+optional "absent", no error; type classes
 *                      -104 / -138 / -131 / -224; handler ERR without own error -200; leftover -108; every
 *                      delivered value equals the item as written; SCPI_Input result = no error raised.
 */
#include "ctx.h"
#include "ref_lex.h"
#include "golden_units.h"

enum { R_INT32, R_UINT64, R_DOUBLE, R_BOOL, R_CHOICE, R_NUMBER, R_CHARS, R_COPYTEXT, R_BLOCK, R_ARRAY, NREADER };
static const char * rname[NREADER] = {"Int32", "UInt64", "Double", "Bool", "Choice", "Number", "Characters", "CopyText", "ArbitraryBlock", "ArrayInt32[3]"};
typedef struct { int reader, mandatory; } rd_t;
static rd_t sig[4];
static int nsig, h_ret_err, h_stop;
static int h_own = 0;      /* the handler reports an error of its own before it returns: 1 with SCPI_ErrorPush, 2 with SCPI_ErrorPushEx (text) */

static const scpi_choice_def_t choices[] = { {"OFF", 0}, {"ON", 1}, {"MAXimum", 2}, SCPI_CHOICE_LIST_END };

static scpi_result_t handler(scpi_t * c) {
    int i, failed = 0;
    tr_printf("H;");
    for (i = 0; i < nsig; i++) {
        scpi_bool_t r = FALSE;
        scpi_bool_t m = sig[i].mandatory ? TRUE : FALSE;
        switch (sig[i].reader) {
            case R_INT32: { int32_t v = 777; r = SCPI_ParamInt32(c, &v, m); tr_printf("r%d", (int) r); if (r) tr_printf("=%d", v); break; }
            case R_UINT64: { uint64_t v = 777; r = SCPI_ParamUInt64(c, &v, m); tr_printf("r%d", (int) r); if (r) tr_printf("=%llu", (unsigned long long) v); break; }
            case R_DOUBLE: { double v = 777; r = SCPI_ParamDouble(c, &v, m); tr_printf("r%d", (int) r); if (r) tr_printf("=%.17g", v); break; }
            case R_BOOL: { scpi_bool_t v = 0; r = SCPI_ParamBool(c, &v, m); tr_printf("r%d", (int) r); if (r) tr_printf("=%d", v ? 1 : 0); break; }
            case R_CHOICE: { int32_t v = 777; r = SCPI_ParamChoice(c, choices, &v, m); tr_printf("r%d", (int) r); if (r) tr_printf("=%d", v); break; }
            case R_NUMBER: {
                scpi_number_t n; memset(&n, 0, sizeof n);
                r = SCPI_ParamNumber(c, scpi_special_numbers_def, &n, m);
                tr_printf("r%d", (int) r);
                if (r) { if (n.special) tr_printf("=s%d", (int) n.content.tag); else tr_printf("=%.17g/u%d/b%d", n.content.value, (int) n.unit, (int) n.base); }
                break;
            }
            case R_CHARS: { const char * p = NULL; size_t l = 0; r = SCPI_ParamCharacters(c, &p, &l, m); tr_printf("r%d", (int) r); if (r) { tr_printf("=["); tr_add(p, l); tr_printf("]"); } break; }
            case R_COPYTEXT: { char * b = (char *) malloc(16); size_t l = 0; r = SCPI_ParamCopyText(c, b, 16, &l, m); tr_printf("r%d", (int) r); if (r) { tr_printf("=["); tr_add(b, l); tr_printf("]"); } free(b); break; }
            case R_BLOCK: { const char * p = NULL; size_t l = 0; r = SCPI_ParamArbitraryBlock(c, &p, &l, m); tr_printf("r%d", (int) r); if (r) { tr_printf("=["); tr_add(p, l); tr_printf("]"); } break; }
            default: {
                int32_t * a = (int32_t *) malloc(3 * sizeof (int32_t)); size_t n = 99, k;
                r = SCPI_ParamArrayInt32(c, a, 3, &n, SCPI_FORMAT_ASCII, m);
                tr_printf("r%d#%d", (int) r, (int) n);
                for (k = 0; k < n && k < 3; k++) tr_printf("=%d", a[k]);
                free(a);
                break;
            }
        }
        tr_printf(";");
        if (!r) { failed = 1; if (h_stop) break; }
    }
    (void) failed;
    if (h_own == 1) SCPI_ErrorPush(c, -222);
    else if (h_own == 2) SCPI_ErrorPushEx(c, -223, (char *) "own", 3);
    tr_printf("X%d;", h_ret_err);
    return h_ret_err ? SCPI_RES_ERR : SCPI_RES_OK;
}
static const scpi_command_t cmds[] = { {"CMD", handler, 1}, SCPI_CMD_LIST_END };

/* ---- fragments ------------------------------------------------------------------------------------------ */
static const char * frag[] = { "1", "-1.5", "1 V", "1 ZZ", "#HF", "ON", "XYZ", "MAX", "\"s\"", "\"a,b\"", "#11x", "#12,;", "(1)", "(1,2)", "", "\"open", "1 2", "@", "#15ab" };
#define NFRAG ((int) (sizeof frag / sizeof frag[0]))
#define NGOOD 14

/* ---- model ------------------------------------------------------------------------------------------------ */
enum { K_DEC, K_DECSUF_KNOWN, K_DECSUF_UNKNOWN, K_NONDEC, K_CHAR, K_STRING, K_BLOCK, K_EXPR };
typedef struct { int kind; const char * p; int len; int base; const char * dp; int dlen; double mult; int unit; } item_t;

static int ieq(const char * a, int al, const char * b) { int i; if ((int) strlen(b) != al) return 0; for (i = 0; i < al; i++) if (tolower((unsigned char) a[i]) != tolower((unsigned char) b[i])) return 0; return 1; }

static int matches_choice(const char * name, const char * p, int l) {      /* short or long form of a choice name */
    int sl = 0, ll = (int) strlen(name), i;
    while (sl < ll && !islower((unsigned char) name[sl])) sl++;
    if (l == ll) { for (i = 0; i < l; i++) if (tolower((unsigned char) p[i]) != tolower((unsigned char) name[i])) break; if (i == l) return 1; }
    if (l == sl) { for (i = 0; i < l; i++) if (tolower((unsigned char) p[i]) != tolower((unsigned char) name[i])) break; if (i == l) return 1; }
    return 0;
}

static int classify(const char * s, rtok_t t, item_t * it) {
    memset(it, 0, sizeof *it);
    it->p = s + t.off; it->len = t.len;
    switch (t.type) {
        case RT_DEC: it->kind = K_DEC; it->base = 10; return 1;
        case RT_DEC_SUFFIX: {
            rtok_t d = ref_decimal(it->p, it->len);
            int k = d.len, i;
            while (k < it->len && (it->p[k] == ' ' || it->p[k] == '\t')) k++;
            it->dp = it->p; it->dlen = d.len; it->base = 10;
            it->kind = K_DECSUF_UNKNOWN;
            for (i = 0; scpi_units_def[i].name; i++) if (ieq(it->p + k, it->len - k, scpi_units_def[i].name)) { it->kind = K_DECSUF_KNOWN; it->mult = scpi_units_def[i].mult; it->unit = (int) scpi_units_def[i].unit; break; }
            return 1;
        }
        case RT_HEX: it->kind = K_NONDEC; it->base = 16; return 1;
        case RT_OCT: it->kind = K_NONDEC; it->base = 8; return 1;
        case RT_BIN: it->kind = K_NONDEC; it->base = 2; return 1;
        case RT_MNEMONIC: it->kind = K_CHAR; return 1;
        case RT_SQUOTE: case RT_DQUOTE: it->kind = K_STRING; return 1;
        case RT_BLOCK: it->kind = K_BLOCK; return 1;
        case RT_EXPR: it->kind = K_EXPR; return 1;
        default: return 0;
    }
}

static int is_plain_int(const item_t * it, long long * v) {
    int i = 0, neg = 0;
    long long x = 0;
    if (it->kind == K_NONDEC) { char tmp[40]; memcpy(tmp, it->p, (size_t) it->len); tmp[it->len] = 0; *v = strtoll(tmp, NULL, it->base); return 1; }
    if (it->kind != K_DEC) return 0;
    if (it->p[0] == '+' || it->p[0] == '-') { neg = it->p[0] == '-'; i++; }
    if (i == it->len) return 0;
    for (; i < it->len; i++) { if (it->p[i] < '0' || it->p[i] > '9') return 0; x = x * 10 + (it->p[i] - '0'); }
    *v = neg ? -x : x;
    return 1;
}
static double item_double(const item_t * it) {
    char tmp[64];
    int l = it->kind == K_DEC ? it->len : it->dlen;
    if (it->kind == K_NONDEC) { long long v; is_plain_int(it, &v); return (double) v; }
    memcpy(tmp, it->kind == K_DEC ? it->p : it->dp, (size_t) l); tmp[l] = 0;
    return strtod(tmp, NULL);
}

/* expected trace; \x01 stands for "-104 or -138", \x02<digits>\x03 for "any value" */
static char EXP[4096]; static size_t EXPN;
static void ex(const char * fmt, ...) { va_list ap; int n; va_start(ap, fmt); n = vsnprintf(EXP + EXPN, sizeof EXP - EXPN, fmt, ap); va_end(ap); if (n > 0) EXPN += (size_t) n; }
static int m_err;      /* model: error raised in this unit */

/* one scalar read of item it (NULL = absent); returns 1 if the read succeeds */
static int model_read(int reader, int mandatory, const item_t * it) {
    long long iv;
    if (!it) {
        if (mandatory) { ex("E-109;"); m_err = 1; }
        ex("r0");
        return 0;
    }
    switch (reader) {
        case R_INT32: case R_UINT64: case R_DOUBLE:
            if (it->kind == K_DEC || it->kind == K_NONDEC) {
                ex("r1=");
                if (reader == R_DOUBLE) ex("%.17g", item_double(it));
                else if (is_plain_int(it, &iv) && iv >= 0) ex("%lld", iv);
                else if (is_plain_int(it, &iv) && reader == R_INT32) ex("%lld", iv);
                else ex("\x02");
                return 1;
            }
            if (it->kind == K_DECSUF_KNOWN || it->kind == K_DECSUF_UNKNOWN) { ex("E-138;r0"); m_err = 1; return 0; }
            ex("E-104;r0"); m_err = 1; return 0;
        case R_BOOL:
            if (it->kind == K_DEC) {      /* a decimal number is true iff its integer part is not zero */
                char tmp[64]; int l = it->len < 63 ? it->len : 63;
                memcpy(tmp, it->p, (size_t) l); tmp[l] = 0;
                ex("r1=%d", strtol(tmp, NULL, 10) != 0 ? 1 : 0);
                return 1;
            }
            if (it->kind == K_CHAR) {
                if (matches_choice("ON", it->p, it->len)) { ex("r1=1"); return 1; }
                if (matches_choice("OFF", it->p, it->len)) { ex("r1=0"); return 1; }
                ex("E-224;r0"); m_err = 1; return 0;
            }
            if (it->kind == K_DECSUF_KNOWN || it->kind == K_DECSUF_UNKNOWN) { ex("E\x01;r0"); m_err = 1; return 0; }
            ex("E-104;r0"); m_err = 1; return 0;
        case R_CHOICE:
            if (it->kind == K_CHAR) {
                int i;
                for (i = 0; choices[i].name; i++) if (matches_choice(choices[i].name, it->p, it->len)) { ex("r1=%d", choices[i].tag); return 1; }
                ex("E-224;r0"); m_err = 1; return 0;
            }
            if (it->kind == K_DECSUF_KNOWN || it->kind == K_DECSUF_UNKNOWN) { ex("E\x01;r0"); m_err = 1; return 0; }
            ex("E-104;r0"); m_err = 1; return 0;
        case R_NUMBER:
            if (it->kind == K_DEC || it->kind == K_NONDEC) { ex("r1=%.17g/u%d/b%d", item_double(it), (int) SCPI_UNIT_NONE, it->base); return 1; }
            if (it->kind == K_DECSUF_KNOWN) { ex("r1=%.17g/u%d/b10", item_double(it) * it->mult, it->unit); return 1; }
            if (it->kind == K_DECSUF_UNKNOWN) { ex("E-131;r0"); m_err = 1; return 0; }
            if (it->kind == K_CHAR) {
                int i;
                for (i = 0; scpi_special_numbers_def[i].name; i++) if (matches_choice(scpi_special_numbers_def[i].name, it->p, it->len)) { ex("r1=s%d", scpi_special_numbers_def[i].tag); return 1; }
                ex("E-224;r0"); m_err = 1; return 0;
            }
            ex("E-104;r0"); m_err = 1; return 0;
        case R_CHARS:
            ex("r1=[");
            if (it->kind == K_STRING) { memcpy(EXP + EXPN, it->p + 1, (size_t) it->len - 2); EXPN += (size_t) it->len - 2; }
            else { memcpy(EXP + EXPN, it->p, (size_t) it->len); EXPN += (size_t) it->len; }
            EXP[EXPN] = 0; ex("]");
            return 1;
        case R_COPYTEXT:
            if (it->kind == K_STRING) { ex("r1=["); memcpy(EXP + EXPN, it->p + 1, (size_t) it->len - 2); EXPN += (size_t) it->len - 2; EXP[EXPN] = 0; ex("]"); return 1; }
            if (it->kind == K_DECSUF_KNOWN || it->kind == K_DECSUF_UNKNOWN) { ex("E\x01;r0"); m_err = 1; return 0; }
            ex("E-104;r0"); m_err = 1; return 0;
        default: /* R_BLOCK */
            if (it->kind == K_BLOCK) { ex("r1=["); memcpy(EXP + EXPN, it->p, (size_t) it->len); EXPN += (size_t) it->len; EXP[EXPN] = 0; ex("]"); return 1; }
            if (it->kind == K_DECSUF_KNOWN || it->kind == K_DECSUF_UNKNOWN) { ex("E\x01;r0"); m_err = 1; return 0; }
            ex("E-104;r0"); m_err = 1; return 0;
    }
}

/* compare TR with EXP where \x01 matches "-104" or "-138" and \x02 matches a run of [-0-9] */
static int trace_matches(void) {
    const char * a = TR, * b = EXP;
    while (*b) {
        if (*b == 1) { if (!strncmp(a, "-104", 4) || !strncmp(a, "-138", 4)) { a += 4; b++; continue; } return 0; }
        if (*b == 2) { if (!(*a == '-' || (*a >= '0' && *a <= '9'))) return 0; while (*a == '-' || (*a >= '0' && *a <= '9')) a++; b++; continue; }
        if (*a != *b) return 0;
        a++; b++;
    }
    return *a == 0;
}

static unsigned long long n_pending = 0, n_cases = 0, n_wellformed = 0, n_malformed = 0, n_errfree = 0, by_err[8];
static tc_t T;

/* delivery: 0 = message + NL through SCPI_Input, 1 = the same behind a unit with an undefined header ("ZZ;"),
 * 2 = without terminator, then a zero-length flush call, 3 = NUL-terminated line handed to SCPI_Parse,
 * 4 = "ZZ9 1234567890.5" NL + the unit without terminator in ONE input call, then a zero-length flush */
static void run_case(const char * body, int bl, int delivery) {
    char msg[300];
    int ml = 0, i, pre = 0;
    runit_t u;
    scpi_bool_t res;
    if (delivery == 1) { memcpy(msg, "ZZ;", 3); ml = 3; pre = 3; }
    if (delivery == 4) { memcpy(msg, "ZZ9 1234567890.5\n", 17); ml = 17; pre = 17; }
    memcpy(msg + ml, body, (size_t) bl); ml += bl;
    if (delivery <= 1) msg[ml++] = '\n';
    u = ref_unit(msg + pre, ml - pre);
    tc_reinit(&T, cmds);
    tr_reset();
    mc_case_s[0] = (const unsigned char *) msg; mc_case_n[0] = (size_t) ml; mc_case_i[5] = delivery;
    if (delivery == 3) {
        char * line = (char *) malloc((size_t) ml + 1);
        memcpy(line, msg, (size_t) ml); line[ml] = 0;
        res = SCPI_Parse(&T.ctx, line, ml);
        free(line);
    } else {
        res = SCPI_Input(&T.ctx, msg, ml);
        if (delivery == 4) { tr_reset(); tc_errs[0] = -113; tc_nerr = 1; tr_printf("E-113;"); res = SCPI_Input(&T.ctx, NULL, 0); }
        if (delivery == 2) {
            if (TRN) { mc_viol("c05/executed-before-terminator", "message [%s] without terminator: trace [%s] before the flush", mc_e(msg, (size_t) ml), mc_es(TR)); return; }
            res = SCPI_Input(&T.ctx, NULL, 0);
        }
    }
    if (delivery <= 1 && u.term == 0) {
        /* the line terminator is swallowed by a definite-length block (complete or not): the message is not
         * terminated yet, so nothing may have been executed */
        n_pending++;
        if (TRN || tc_nerr) mc_viol("c05/unterminated-message-executed", "message [%s] is not terminated (block data swallows the NL) but trace is [%s]", mc_e(msg, (size_t) ml), mc_es(TR));
        return;
    }
    if (pre) {      /* the unit in front must have raised exactly -113 first; drop it from the trace */
        if (strncmp(TR, "E-113;", 6) || tc_nerr < 1) { mc_viol("c05/prefix-unit", "message [%s]: trace [%s] does not start with the -113 of the undefined unit", mc_e(msg, (size_t) ml), mc_es(TR)); return; }
        memmove(TR, TR + 6, TRN - 6 + 1); TRN -= 6;
        memmove(tc_errs, tc_errs + 1, sizeof (int) * (size_t) (tc_nerr - 1)); tc_nerr--;
    }
    msg[ml] = 0;
    n_cases++;
    if (u.kind != RU_WELLFORMED) {
        int bad = 0;
        n_malformed++;
        if (strstr(TR, "H;")) { mc_viol("c05/malformed-unit-reached-handler", "message [%s]: trace [%s]", mc_e(msg, (size_t) ml), mc_es(TR)); return; }
        if (tc_nerr == 0) { mc_viol("c05/malformed-unit-no-error", "message [%s] raised no error", mc_e(msg, (size_t) ml)); return; }
        for (i = 0; i < tc_nerr; i++) if (tc_errs[i] > -100 || tc_errs[i] < -199) bad = tc_errs[i];
        if (bad) { mc_viol("c05/malformed-unit-wrong-error-class", "message [%s] raised %d", mc_e(msg, (size_t) ml), bad); return; }
        if (res) { mc_viol("c05/input-result", "message [%s] raised errors but SCPI_Input returned TRUE", mc_e(msg, (size_t) ml)); return; }
        mc_outcome(mc_hash(TR, TRN, 5));
        return;
    }
    /* well formed: tokenise the list with the reference lexer and run the model */
    {
        item_t items[8];
        int nitems = 0, k, cur = 0, stopped = 0;
        const char * um = msg + pre;      /* the unit under test */
        int uml = ml - pre;
        k = u.hdr_off + u.header.consumed;
        k += r_wslen(um, uml, k);
        if (u.nparams > 0) {
            for (;;) {
                rtok_t t = ref_programdata(um + k, uml - k);
                if (t.type == RT_UNKNOWN || nitems == 8) break;
                classify(um + k, t, &items[nitems++]);
                k += t.consumed;
                if (k < uml && um[k] == ',') { k++; continue; }
                break;
            }
        }
        if (nitems != u.nparams) { mc_viol("c05/harness-model", "message [%s]: model tokenised %d items, unit detector %d", mc_e(msg, (size_t) ml), nitems, u.nparams); return; }
        n_wellformed++;
        EXPN = 0; EXP[0] = 0; m_err = 0;
        ex("H;");
        for (i = 0; i < nsig && !stopped; i++) {
            int ok;
            if (sig[i].reader == R_ARRAY) {
                int n = 0, first_ok = 1, mand = sig[i].mandatory, vals[3], j;
                char pre[256]; size_t prel = 0;
                /* errors of the element reads come first in the trace, then r<ret>#<count>=values */
                size_t mark = EXPN;
                for (j = 0; j < 3; j++) {
                    const item_t * it = cur < nitems ? &items[cur] : NULL;
                    size_t before = EXPN;
                    int r = model_read(R_INT32, mand, it);
                    /* keep only the error part of what model_read wrote */
                    { char * e = strstr(EXP + before, "r"); if (e) { EXPN = (size_t) (e - EXP); EXP[EXPN] = 0; } }
                    if (it) cur++;
                    if (!r) { if (j == 0) first_ok = 0; break; }
                    { long long v = 0; if (is_plain_int(it, &v)) vals[n] = (int) v; else vals[n] = -999999; }
                    n++; mand = 0;
                }
                (void) pre; (void) prel; (void) mark;
                ok = first_ok || !sig[i].mandatory;
                ex("r%d#%d", ok, n);
                for (j = 0; j < n; j++) { if (vals[j] == -999999) ex("=\x02"); else ex("=%d", vals[j]); }
            } else {
                const item_t * it = cur < nitems ? &items[cur] : NULL;
                size_t before = EXPN;
                ok = model_read(sig[i].reader, sig[i].mandatory, it);
                /* error callback precedes the handler's own record: model_read wrote "E..;r0" in that order */
                (void) before;
                if (it) cur++;
            }
            ex(";");
            if (!ok && h_stop) stopped = 1;
        }
        if (h_own) { ex("E-22%d;", 1 + h_own); m_err = 1; }      /* an error of the handler's own: neither -200 nor -108 on top of it */
        ex("X%d;", h_ret_err);
        if (h_ret_err && !m_err) { ex("E-200;"); m_err = 1; }
        if (cur < nitems && !m_err) { ex("E-108;"); m_err = 1; }
        if (!trace_matches()) {
            /* classify by the first error that differs */
            const char * a = TR, * b = EXP;
            char sigs[96];
            const char * what = "trace";
            while (*a && *b && (*a == *b)) { a++; b++; }
            while (b > EXP && *(b - 1) != ';' ) b--;
            if (!strncmp(b, "E-109", 5)) what = "missing-parameter-109";
            else if (!strncmp(b, "E-108", 5)) what = "surplus-parameter-108";
            else if (!strncmp(b, "E-104", 5) || !strncmp(b, "E\x01", 2)) what = "data-type-104";
            else if (!strncmp(b, "E-138", 5)) what = "suffix-not-allowed-138";
            else if (!strncmp(b, "E-131", 5)) what = "invalid-suffix-131";
            else if (!strncmp(b, "E-224", 5)) what = "illegal-value-224";
            else if (!strncmp(b, "E-200", 5)) what = "execution-error-200";
            else if (!strncmp(b, "r1", 2)) what = "value-or-acceptance";
            else if (!strncmp(b, "r0", 2)) what = "absent-or-refusal";
            snprintf(sigs, sizeof sigs, "c05/%s", what);
            mc_viol(sigs, "signature {%s%s%s%s%s%s} ret=%s stop=%d message [%s]: trace [%s], model [%s]",
                    nsig > 0 ? rname[sig[0].reader] : "", nsig > 0 ? (sig[0].mandatory ? "!" : "?") : "", nsig > 1 ? "," : "", nsig > 1 ? rname[sig[1].reader] : "", nsig > 1 ? (sig[1].mandatory ? "!" : "?") : "", nsig > 2 ? ",..." : "",
                    h_ret_err ? "ERR" : "OK", h_stop, mc_e(msg, (size_t) ml), mc_es(TR), mc_es(EXP));
            return;
        }
        if ((res ? 1 : 0) != ((m_err || (pre && delivery != 4)) ? 0 : 1)) { mc_viol("c05/input-result", "message [%s]: SCPI_Input returned %d, errors raised: %d", mc_e(msg, (size_t) ml), (int) res, tc_nerr); return; }
        if (!m_err) n_errfree++;
        for (i = 0; i < tc_nerr; i++) { int c = tc_errs[i]; by_err[c == -109 ? 0 : c == -108 ? 1 : c == -104 ? 2 : c == -138 ? 3 : c == -131 ? 4 : c == -224 ? 5 : c == -200 ? 6 : 7]++; }
        mc_outcome(mc_hash(TR, TRN, 6));
    }
}

static void run_lists(int maxitems) {
    int idx[4], n, i, style;
    char msg[256];
    for (n = 0; n <= maxitems; n++) {
        for (i = 0; i < n; i++) idx[i] = 0;
        for (;;) {
            for (style = 0; style < (n == 0 ? 2 : 4); style++) {
                int o = 0;
                int d;
                o += sprintf(msg + o, "CMD");
                if (n > 0 || style == 1) msg[o++] = ' ';
                if (n > 0 && style == 3) msg[o++] = ' ';
                for (i = 0; i < n; i++) {
                    if (i) { if (style & 2) msg[o++] = ' '; msg[o++] = ','; if (style & 1) msg[o++] = ' '; }
                    o += sprintf(msg + o, "%s", frag[idx[i]]);
                }
                if (style == 3) msg[o++] = ' ';
                mc_case_tag = "list";
                mc_case_i[0] = nsig; mc_case_i[1] = nsig > 0 ? sig[0].reader * 2 + sig[0].mandatory : -1; mc_case_i[2] = nsig > 1 ? sig[1].reader * 2 + sig[1].mandatory : -1; mc_case_i[3] = h_ret_err; mc_case_i[4] = h_stop;
                for (d = 0; d < (n <= 2 ? 5 : 1); d++) if (MC_CASE()) run_case(msg, o, d);
            }
            for (i = n - 1; i >= 0; i--) { if (++idx[i] < NFRAG) break; idx[i] = 0; }
            if (i < 0) break;
        }
    }
}

static char expbuf[256];
static char * strip_errors_(char * x) {
    char * r = x, * w = x;
    while (*r) {
        if (r[0] == 'E' && (r[1] == '-' || (r[1] >= '0' && r[1] <= '9') || r[1] == 1)) { while (*r && *r != ';') r++; if (*r) r++; continue; }
        *w++ = *r++;
    }
    *w = 0;
    return x;
}

int main(int argc, char ** argv) {
    int maxsig, n, i, s[4], flags;
    mc_init(argc, argv);
    mc_tail_poison = 1;
    tc_log_flush = 0;
    tc_init(&T, cmds, 128, 16);
    maxsig = mc_thorough ? 3 : 2;
    for (n = 0; n <= maxsig; n++) {
        for (i = 0; i < n; i++) s[i] = 0;
        for (;;) {
            nsig = n;
            for (i = 0; i < n; i++) { sig[i].reader = s[i] / 2; sig[i].mandatory = s[i] % 2; }
            for (flags = 0; flags < 4; flags++) {
                h_ret_err = flags & 1; h_stop = (flags >> 1) & 1;
                if (n == 0 && h_stop) continue;
                run_lists(n >= 3 ? 2 : 3);
                if (n <= 1) { for (h_own = 1; h_own <= 2; h_own++) run_lists(2); h_own = 0; }
            }
            for (i = n - 1; i >= 0; i--) { if (++s[i] < NREADER * 2) break; s[i] = 0; }
            if (i < 0) break;
        }
    }
    {   /* well-formed lists of 1..1000 items, read one by one and as an array: every item is delivered, nothing is raised */
        static const int counts[] = {1, 5, 100, 255, 256, 257, 300, 512, 513, 1000};
        static tc_t TL;
        int ci, form;
        tc_init(&TL, cmds, 8192, 8);
        for (ci = 0; ci < 10; ci++) for (form = 0; form < 2; form++) {
            char * msg = (char *) malloc(8192);
            int n = counts[ci], k, ml = 0;
            if (!MC_CASE()) { free(msg); continue; }
            mc_case_tag = "long-list"; mc_case_i[0] = n; mc_case_i[1] = form;
            ml += sprintf(msg + ml, "CMD ");
            for (k = 0; k < n; k++) ml += sprintf(msg + ml, form ? "%s%d" : "%s%d", k ? (form ? " , " : ",") : "", (k * 7) % 1000);
            msg[ml] = 0;
            {   /* parse the list with the typed reader directly on a parameter cursor, as a handler would */
                lex_state_t * ls = &TL.ctx.param_list.lex_state; int got = 0, bad = 0; int32_t v;
                tr_reset();
                ls->buffer = msg + 4; ls->pos = msg + 4; ls->len = ml - 4; TL.ctx.input_count = 0; TL.ctx.cmd_error = FALSE;
                while (got < 1100 && SCPI_ParamInt32(&TL.ctx, &v, FALSE)) { if (v != (got * 7) % 1000) bad++; got++; }
                n_cases++;
                if (got != n || bad || tc_nerr) mc_viol("c05/value-or-acceptance/long-list", "well-formed list of %d integers (separator [%s]): %d delivered, %d wrong, %d errors (first %d)", n, form ? " , " : ",", got, bad, tc_nerr, tc_nerr ? tc_errs[0] : 0);
                else n_wellformed++;
            }
            free(msg);
        }
        tc_free(&TL);
    }
    /* removes the error notifications "E<code>;" from a trace */
#define strip_errors(x) strip_errors_(x)
    {   /* the same units while the error queue is already full (every further error replaces the newest entry by -350):
         * the per-unit accounting must not depend on the fill level of the queue */
        static tc_t TF;
        static const struct { const char * msg; const char * exp; int res; } fq[] = {
            {"CMD 1,2\n", "H;X0;E-108;", 0}, {"CMD\n", "H;X0;", 1}, {"ZZ\n", "E-113;", 0},
        };
        int k, fill;
        tc_init(&TF, cmds, 64, 2);
        for (fill = 0; fill <= 3; fill++) for (k = 0; k < 3; k++) {
            int f; scpi_bool_t r;
            char got[256]; size_t o = 0; const char * t;
            if (!MC_CASE()) continue;
            mc_case_tag = "full-queue"; mc_case_i[0] = fill; mc_case_i[1] = k;
            tc_reinit(&TF, cmds); nsig = 0; h_ret_err = 0; h_stop = 0;
            for (f = 0; f < fill; f++) SCPI_ErrorPush(&TF.ctx, -222);
            tr_reset();
            r = SCPI_Input(&TF.ctx, fq[k].msg, (int) strlen(fq[k].msg));
            n_cases++;
            for (t = TR; *t; ) { if (!strncmp(t, "E-350;", 6)) { t += 6; continue; } got[o++] = *t++; }      /* the overflow marker is the queue's business (C10) */
            got[o] = 0;
            if (fill >= 2) strip_errors(got), strip_errors(strcpy(expbuf, fq[k].exp)); else strcpy(expbuf, fq[k].exp);     /* on a full queue the error is replaced by the overflow marker: which notifications accompany that is C10's business */
            if (fill == 1 && k != 1) {      /* one place was free: the unit's own error must be IN the queue, not replaced by the overflow marker */
                char info[300]; int c1 = tc_pop(&TF, info, sizeof info), c2 = tc_pop(&TF, info, sizeof info), want = k == 0 ? -108 : -113;
                if (c1 != -222 || c2 != want) mc_viol("c05/error-not-queued-in-last-free-place", "1 error queued before (capacity 2), message [%s]: queue holds %d, %d; expected -222, %d", mc_es(fq[k].msg), c1, c2, want);
            }
            if (strcmp(got, expbuf) || (r ? 1 : 0) != fq[k].res)
                mc_viol("c05/error-accounting-depends-on-queue-fill", "%d errors queued before (capacity 2), message [%s]: trace [%s] result %d, expected [%s] result %d", fill, mc_es(fq[k].msg), mc_es(TR), (int) r, fq[k].exp, fq[k].res);
            else n_wellformed++;
        }
        /* and with handler signatures that use optional parameters / fail silently */
        for (fill = 0; fill <= 3; fill += 3) {
            int v;
            for (v = 0; v < 3; v++) {
                int f; scpi_bool_t r; char got[256]; size_t o = 0; const char * t;
                static const char * m3[] = {"CMD \"abc\"\n", "CMD\n", "CMD 5\n"};
                static const char * e3[] = {"H;E-104;r0;X0;", "H;E-109;r0;X1;", "H;r1=5;X1;E-200;"};
                if (!MC_CASE()) continue;
                mc_case_tag = "full-queue-2"; mc_case_i[0] = fill; mc_case_i[1] = v;
                tc_reinit(&TF, cmds); nsig = 1; sig[0].reader = R_INT32; sig[0].mandatory = v == 1; h_ret_err = v >= 1; h_stop = 0;
                for (f = 0; f < fill; f++) SCPI_ErrorPush(&TF.ctx, -222);
                tr_reset();
                r = SCPI_Input(&TF.ctx, m3[v], (int) strlen(m3[v]));
                n_cases++;
                for (t = TR; *t; ) { if (!strncmp(t, "E-350;", 6)) { t += 6; continue; } got[o++] = *t++; }
                got[o] = 0;
                if (fill >= 2) strip_errors(got), strip_errors(strcpy(expbuf, e3[v])); else strcpy(expbuf, e3[v]);
                if (strcmp(got, expbuf) || r) mc_viol("c05/error-accounting-depends-on-queue-fill", "%d errors queued before (capacity 2), signature {Int32%s} ret=%s message [%s]: trace [%s] result %d, expected [%s] result 0", fill, v == 1 ? "!" : "?", v ? "ERR" : "OK", mc_es(m3[v]), mc_es(TR), (int) r, e3[v]);
                else n_wellformed++;
            }
        }
        tc_free(&TF);
    }
    {   /* every digit of every radix: #H / #Q / #B items of two equal digits, upper and lower case radix letter, alone and as second
         * list item behind a decimal one, read by the unsigned 64-bit reader; a digit that does not belong to the radix ends the item and
         * makes the unit malformed (no handler, a -1xx error) */
        static const char * dig = "0123456789ABCDEFabcdef";
        static const struct { char r; int base; } rad[] = {{'H', 16}, {'h', 16}, {'Q', 8}, {'q', 8}, {'B', 2}, {'b', 2}};
        int ri, di, v;
        for (ri = 0; ri < 6; ri++) for (di = 0; dig[di]; di++) for (v = 0; v < 2; v++) {
            char msg[64], exp[160], lit[8]; int ml, dv;
            if (!MC_CASE()) continue;
            dv = isdigit((unsigned char) dig[di]) ? dig[di] - '0' : 10 + (toupper((unsigned char) dig[di]) - 'A');
            sprintf(lit, "#%c%c%c", rad[ri].r, dig[di], dig[di]);
            mc_case_tag = "radix-digit"; mc_case_s[0] = (const unsigned char *) lit; mc_case_n[0] = 4; mc_case_i[0] = v;
            tc_reinit(&T, cmds); nsig = v ? 2 : 1; sig[0].reader = v ? R_INT32 : R_UINT64; sig[0].mandatory = 1; sig[1].reader = R_UINT64; sig[1].mandatory = 1; h_ret_err = 0; h_stop = 0; h_own = 0;
            ml = v ? sprintf(msg, "CMD 5 , %s\n", lit) : sprintf(msg, "CMD %s\n", lit);
            tr_reset();
            SCPI_Input(&T.ctx, msg, ml);
            n_cases++;
            if (dv < rad[ri].base) {
                if (v) sprintf(exp, "H;r1=5;r1=%llu;X0;", (unsigned long long) (dv * rad[ri].base + dv)); else sprintf(exp, "H;r1=%llu;X0;", (unsigned long long) (dv * rad[ri].base + dv));
                if (strcmp(TR, exp)) mc_viol("c05/nondecimal-digit", "message [%s]: trace [%s], expected [%s]", mc_e(msg, (size_t) ml), mc_es(TR), exp);
                else n_wellformed++;
            } else {
                if (strstr(TR, "H;") || !(strstr(TR, "E-1") == TR)) mc_viol("c05/nondecimal-digit/malformed-item-reached-handler", "message [%s] (digit outside the radix): trace [%s], expected command errors only", mc_e(msg, (size_t) ml), mc_es(TR));
                else n_malformed++;
            }
        }
    }
    {   /* exponent marks: a sign behind the mark needs digits; "1e+" is the number 1, the suffix e and a stray plus sign (a minus sign may belong to a suffix), i.e. not program
         * data (no handler, a -1xx error, FALSE) - alone, behind another item and in front of one; with digits the item is delivered */
        static const char * bad[] = {"1e+", "2E+", "1 E +", "1.5e +", ".5E+", "1e+ ", "7E+\t"};
        static const char * good[] = {"1e+2", "2E-1", "1 E -1", "1.5e +0", ".5E+1", "1e2", "7E-0"};
        int bi, v, gd;
        for (gd = 0; gd < 2; gd++) for (bi = 0; bi < 7; bi++) for (v = 0; v < 6; v++) {
            char msg[64]; int ml; scpi_bool_t ret;
            const char * lit = gd ? good[bi] : bad[bi];
            if (!MC_CASE()) continue;
            mc_case_tag = "exponent-sign"; mc_case_s[0] = (const unsigned char *) lit; mc_case_n[0] = strlen(lit); mc_case_i[0] = v;
            tc_reinit(&T, cmds); h_ret_err = 0; h_stop = 0; h_own = 0;
            nsig = v < 2 ? 1 : 2; sig[0].reader = (v == 1 || v == 3) ? R_INT32 : R_DOUBLE; sig[0].mandatory = 1; sig[1].reader = (v & 1) ? R_INT32 : R_DOUBLE; sig[1].mandatory = 1;
            ml = v < 2 ? sprintf(msg, "CMD %s\n", lit) : v < 4 ? sprintf(msg, "CMD 5 , %s\n", lit) : sprintf(msg, "CMD %s,5\n", lit);
            tr_reset();
            ret = SCPI_Input(&T.ctx, msg, ml);
            n_cases++;
            if (!gd) {
                if (strstr(TR, "H;") || !(strstr(TR, "E-1") == TR) || ret) mc_viol("c05/exponent-sign-without-digits/not-refused", "message [%s] (exponent mark and sign without digits): trace [%s] return %d, expected command errors only and FALSE", mc_e(msg, (size_t) ml), mc_es(TR), (int) ret);
                else n_malformed++;
            } else {
                if (!(strstr(TR, "H;") == TR) || strstr(TR, "E-") || !ret) mc_viol("c05/exponent-with-digits/not-delivered", "message [%s]: trace [%s] return %d, expected the handler to read both items without error", mc_e(msg, (size_t) ml), mc_es(TR), (int) ret);
                else n_wellformed++;
            }
        }
    }
    {   /* every unit suffix of IEEE 488.2 table 7-1 that the pinned library knows (golden_units.h, not the library's own table) is a
         * KNOWN suffix: delivered with its unit and multiplier by the number reader, alone and as an item of a list; the same name with
         * one more letter is unknown (-131) */
        int g;
        for (g = 0; golden_units[g].name; g++) {
            char msg[64], exp[160]; int ml, v;
            if (!MC_CASE()) continue;
            mc_case_tag = "golden-unit"; mc_case_s[0] = (const unsigned char *) golden_units[g].name; mc_case_n[0] = strlen(golden_units[g].name);
            for (v = 0; v < 3; v++) {
                tc_reinit(&T, cmds); nsig = v == 1 ? 2 : 1; sig[0].reader = R_NUMBER; sig[0].mandatory = 1; sig[1].reader = R_INT32; sig[1].mandatory = 1; h_ret_err = 0; h_stop = 0; h_own = 0;
                if (v == 0) { ml = sprintf(msg, "CMD 2%s\n", golden_units[g].name); sprintf(exp, "H;r1=%.17g/u%d/b10;X0;", 2 * golden_units[g].mult, (int) golden_units[g].unit); }
                else if (v == 1) { ml = sprintf(msg, "CMD 2 %s , 7\n", golden_units[g].name); sprintf(exp, "H;r1=%.17g/u%d/b10;r1=7;X0;", 2 * golden_units[g].mult, (int) golden_units[g].unit); }
                else { ml = sprintf(msg, "CMD 2 %sQ\n", golden_units[g].name); sprintf(exp, "H;E-131;r0;X0;"); }
                tr_reset();
                SCPI_Input(&T.ctx, msg, ml);
                n_cases++;
                if (strcmp(TR, exp)) mc_viol(v == 2 ? "c05/suffix-131/golden" : "c05/known-suffix/golden", "message [%s] with a number reader%s: trace [%s], expected [%s]", mc_e(msg, (size_t) ml), v == 1 ? " and an integer reader" : "", mc_es(TR), exp);
                else n_wellformed++;
            }
        }
    }
    if (mc_shard == 0) {
        mc_sample("signature {Int32!, Choice?} handler OK: message [CMD 1 , XYZ\\n] -> r1=1; E-224 r0; result FALSE");
        mc_sample("signature {Number!} message [CMD 1 ZZ\\n] -> E-131; message [CMD \"s\"\\n] -> E-104");
        mc_sample("signature {} message [CMD 1,\\n] -> malformed: no handler, one -1xx error");
    }
    mc_stat("impl_calls", n_cases);
    mc_stat("nontrivial", n_wellformed);
    mc_stat("units_wellformed", n_wellformed);
    mc_stat("units_malformed", n_malformed);
    mc_stat("messages_left_pending", n_pending);
    mc_stat("units_without_error", n_errfree);
    mc_stat("err_109", by_err[0]); mc_stat("err_108", by_err[1]); mc_stat("err_104", by_err[2]); mc_stat("err_138", by_err[3]);
    mc_stat("err_131", by_err[4]); mc_stat("err_224", by_err[5]); mc_stat("err_200", by_err[6]); mc_stat("err_other", by_err[7]);
    tc_free(&T);
    return mc_finish();
}
