/* hook.c - harness side of the one source hook (guard SCPI_PARSER_VERIF) in SCPI_Input.
 * When mc_tail_poison is set, the unused tail of the input buffer is poisoned with the ASan
 * manual-poisoning API so that a read of stale bytes behind the logical end of input traps.
 * The input buffer must be an exact-size heap block (poisoning then is byte-precise). */
#include "scpi/scpi.h"
#if defined(__has_feature)
#if __has_feature(address_sanitizer)
#define MC_ASAN 1
#endif
#endif
#if defined(__SANITIZE_ADDRESS__)
#define MC_ASAN 1
#endif
#ifdef MC_ASAN
#include <sanitizer/asan_interface.h>
#else
#define ASAN_POISON_MEMORY_REGION(a, s) ((void) (a), (void) (s))
#define ASAN_UNPOISON_MEMORY_REGION(a, s) ((void) (a), (void) (s))
#endif

int mc_tail_poison = 0;
unsigned long long mc_tail_calls = 0;

void scpi_verif_input_tail(scpi_t * context, int where);
void scpi_verif_input_tail(scpi_t * context, int where) {
    char * d = context->buffer.data;
    size_t len = context->buffer.length, pos = context->buffer.position;
    mc_tail_calls++;
    if (!mc_tail_poison || !d) return;
    if (where == 0) {
        ASAN_UNPOISON_MEMORY_REGION(d, len);
    } else if (where == 1) {          /* data[pos] is the terminating NUL: everything behind it is dead */
        if (pos + 1 < len) ASAN_POISON_MEMORY_REGION(d + pos + 1, len - pos - 1);
    } else {                          /* executed message removed, not re-terminated: data[pos..] is dead */
        if (pos < len) ASAN_POISON_MEMORY_REGION(d + pos, len - pos);
    }
}
