/* c02_dispatch.c - C02: each message unit runs exactly the first command matching its effective header.
 * Bounded-exhaustive: every message of 1..K units (K = 3 quick, 4 thorough) over 31 unit spellings x 2
 * separator styles, against every command table made of an ordered pair or triple of a pool of 11
 * overlapping patterns (order matters for "first"), plus the whole pool in two orders; the same with a second
 * vocabulary (9 patterns, 21 spellings: keywords of 13..15 characters, digits and '_' in short forms).
 * Oracle: reference interpreter of the statement (effective header by the path rule, first accepting
 * entry by ref_pattern.h): expected handler log H<tag>(<effective header>) once per unit in order, or
 * exactly one -113 whose text contains the header as written; inside the handler SCPI_CmdTag,
 * SCPI_IsCmd(effective header), SCPI_IsCmd(all-long and mandatory-short spelling of every table entry) and
 * SCPI_CommandNumbers must agree with the model.
 */
#include "ctx.h"
#include "ref_pattern.h"

#define NPOOL 11
static const char * pool1[NPOOL] = { "AAAA:Bb", "AAAA:Bb?", "AAAA[:Dd]:Ee", "AAAA:Ee", "[:AAAA]:Ff", "Ff", "AAAA:Cc#", "Bb", "*XY", "AAAA:Dd:Ee", "GG#:HH#" };
static rp_pattern_t pool_rp[NPOOL];
static const char * spell1[] = {
    "AAAA:Bb", "aaaa:BB?", ":AAAA:Bb", "aaaa:ee", "AAAA:DD:EE", "Bb", "BB?", "Ee", "Dd:Ee", ":Ee", "Ff", ":FF", "AAAA:Ff",
    "Cc1", "AAAA:CC23", "CC", ":AAAA:Cc1234", "aaaa:cc00056", "GG3:HH4", "HH5", "*XY", "*xy?", "ZZ", "AAAA:ZZ", "ZZ:YY", ":AAAA:Dd:Zz", "AAAA", "Ee?", "AAAA:Bc", "Fg", "*XZ",
};
#define NSPELL1 ((int) (sizeof spell1 / sizeof spell1[0]))
/* second vocabulary: keywords longer than 12 characters, short forms holding a digit or an underscore, keywords that are a
 * prefix of another one, a numeric suffix behind a 13-character keyword */
#define NPOOL2 9
static const char * pool2[NPOOL2] = { "TRIGger:SYNChronization:MODE", "TRIGger:SYNChronization", "SOURce:W3GPp:STATe", "SOURce:W:STATe", "SYSTem:IEEE488:ADDRess",
    "TEST:RX_Level?", "TEST:RX?", "THERmocouples#:TYPE", "SOURce:W3:STATe" };
static const char * spell2[] = {
    "TRIG:SYNC:MODE", "TRIGGER:SYNCHRONIZATION:MODE", "trig:synchronization", "MODE", "SOUR:W3GP:STAT", "SOUR:W:STAT", "source:w3gpp:state", "SOUR:W3:STAT", "STAT",
    "SYST:IEEE488:ADDR", "SYST:IEEE:ADDR", "TEST:RX_L?", "TEST:RX?", "test:rx_level?", "RX?", "RX_L?", "THERMOCOUPLES12:TYPE", "THER3:TYPE", "TYPE", "THERMOCOUPLE:TYPE", "SYNC",
};
#define NSPELL2 ((int) (sizeof spell2 / sizeof spell2[0]))
/* third vocabulary: patterns that END in optional keywords carrying a numeric suffix, next to plainer entries that overlap them */
#define NPOOL3 7
static const char * pool3[NPOOL3] = { "OUTPut#[:CHANnel#]", "OUTPut#", "SOURce#:LEVel[:IMMediate#]?", "SOURce#:LEVel?", "[:OUTPut#]:CHANnel#", "CHANnel#", "OUTPut[:CHANnel#][:MODE#]" };
static const char * spell3[] = {
    "OUTP2", "OUTP", "OUTPUT3:CHAN5", "OUTP:CHANNEL", ":OUTP4:CHAN", "CHAN7", "CHAN", "SOUR1:LEV?", "SOURCE:LEVEL:IMM3?", "LEV?", "LEV:IMMEDIATE?", "OUTP:MODE2", "OUTP:CHAN1:MODE", "MODE5", "SOUR:LEV", "OUTP2:ZZ",
};
#define NSPELL3 ((int) (sizeof spell3 / sizeof spell3[0]))
static const char ** pool = pool1, ** spell = spell1;
static int NSPELL = NSPELL1, npool = NPOOL;

static scpi_command_t table[NPOOL + 2];
static int tab_ids[NPOOL + 2], tab_n;

static scpi_result_t handler(scpi_t * c) {
    int32_t nums[3] = {-7, -7, -7};
    char eff[128];
    size_t l = c->param_list.cmd_raw.length < sizeof eff - 1 ? c->param_list.cmd_raw.length : sizeof eff - 1;
    memcpy(eff, c->param_list.cmd_raw.data, l); eff[l] = 0;
    SCPI_CommandNumbers(c, nums, 2, -1);
    tr_printf("H%d(%s)", (int) SCPI_CmdTag(c), eff);
    tr_printf("i%d%d", (int) SCPI_IsCmd(c, eff), (int) SCPI_IsCmd(c, "ZZ:QQ"));
    {   /* slots of numeric keywords; a slot inside the announced length (2) that no numeric keyword owns is the caller's scratch space
         * ("~"); the slot behind the announced length must not be touched */
        int nk = 0; const char * pp;
        for (pp = c->param_list.cmd->pattern; *pp; pp++) if (*pp == '#') nk++;
        tr_printf("n");
        if (nk > 0) tr_printf("%d,", nums[0]); else tr_printf("~,");
        if (nk > 1) tr_printf("%d,", nums[1]); else tr_printf("~,");
        tr_printf("%d;", nums[2]);
    }
    {   /* SCPI_IsCmd with spellings OTHER than the received one: every table entry's all-long and mandatory-short spelling */
        int e, kind;
        char probe[160];
        tr_printf("p");
        for (e = 0; e < tab_n; e++) for (kind = 0; kind < 2; kind++) { rp_probe(&pool_rp[tab_ids[e]], kind, probe); tr_printf("%d", (int) SCPI_IsCmd(c, probe)); }
        tr_printf(";");
    }
    /* handlers of the entries at even table positions fail without reporting an error of their own (-200): dispatch and
     * the header path of the following unit must not depend on whether a handler succeeded */
    return ((SCPI_CmdTag(c) / 100000) % 2 == 0) ? SCPI_RES_ERR : SCPI_RES_OK;
}

static unsigned long long n_msgs = 0, n_units = 0, n_matched = 0, n_undefined = 0, n_composed = 0, n_shadowed = 0;

/* reference interpreter: writes the expected trace into exp, returns number of -113 expected */
static int nfail;
static int ref_message(const int * units, int k, char * exp, size_t expsz, char undefined_hdr[][64]) {
    char path[128] = "";
    int u, nund = 0;
    nfail = 0;
    size_t o = 0;
    int prev_common = 0;
    exp[0] = 0;
    for (u = 0; u < k; u++) {
        const char * w = spell[units[u]];
        char eff[192];
        int e, hit = -1, second = -1;
        long nums[RP_MAXKW];
        if (w[0] == ':' || w[0] == '*' || prev_common) snprintf(eff, sizeof eff, "%s", w);
        else { snprintf(eff, sizeof eff, "%s%s", path, w); if (path[0]) n_composed++; }
        for (e = 0; e < tab_n; e++) {
            long tmp[RP_MAXKW];
            if (rp_match(&pool_rp[tab_ids[e]], eff, (int) strlen(eff), tmp, -1)) { if (hit < 0) { hit = e; memcpy(nums, tmp, sizeof nums); } else if (second < 0) second = e; }
        }
        if (hit >= 0) {
            int nn = rp_count_numeric(&pool_rp[tab_ids[hit]]);
            o += (size_t) snprintf(exp + o, expsz - o, "H%d(%s)i10n", (int) table[hit].tag, eff);
            if (nn > 0) o += (size_t) snprintf(exp + o, expsz - o, "%ld,", nums[0]); else o += (size_t) snprintf(exp + o, expsz - o, "~,");
            if (nn > 1) o += (size_t) snprintf(exp + o, expsz - o, "%ld,", nums[1]); else o += (size_t) snprintf(exp + o, expsz - o, "~,");
            o += (size_t) snprintf(exp + o, expsz - o, "-7;p");
            { int e2, kind; char probe[160]; long tmp2[RP_MAXKW];
              for (e2 = 0; e2 < tab_n; e2++) for (kind = 0; kind < 2; kind++) { int pl = rp_probe(&pool_rp[tab_ids[e2]], kind, probe); o += (size_t) snprintf(exp + o, expsz - o, "%d", rp_match(&pool_rp[tab_ids[hit]], probe, pl, tmp2, -1)); } }
            o += (size_t) snprintf(exp + o, expsz - o, ";%s", ((table[hit].tag / 100000) % 2 == 0) ? "E-200;" : "");
            if ((table[hit].tag / 100000) % 2 == 0) nfail++;
            n_matched++;
            if (second >= 0) n_shadowed++;
        } else {
            o += (size_t) snprintf(exp + o, expsz - o, "E-113;");
            snprintf(undefined_hdr[nund], 64, "%s", w);
            nund++; n_undefined++;
        }
        /* path for the next unit: up to and including the last colon of this effective header */
        {
            const char * lc = strrchr(eff, ':');
            if (eff[0] == '*') { path[0] = 0; prev_common = 1; }
            else { prev_common = 0; if (lc) { size_t pl = (size_t) (lc - eff) + 1; memcpy(path, eff, pl); path[pl] = 0; } else path[0] = 0; }
        }
        n_units++;
    }
    return nund;
}

static tc_t T;

static void run_message(const int * units, int k, int style) {
    char msg[512], exp[2048], und[8][64];
    size_t ml = 0;
    int u, nund, i;
    for (u = 0; u < k; u++) {
        if (u) { if (style) { memcpy(msg + ml, " ; ", 3); ml += 3; } else msg[ml++] = ';'; }
        ml += (size_t) sprintf(msg + ml, "%s", spell[units[u]]);
    }
    msg[ml++] = '\n';
    nund = ref_message(units, k, exp, sizeof exp, und);
    tc_reinit(&T, table);
    tr_reset();
    mc_case_s[0] = (const unsigned char *) msg; mc_case_n[0] = ml;
    SCPI_Input(&T.ctx, msg, (int) ml);
    n_msgs++;
    if (strcmp(TR, exp)) {
        const char * why = "c02/trace";
        /* classify */
        if (strstr(exp, "H") && !strstr(TR, "H")) why = "c02/handler-not-run";
        else {
            /* first differing unit */
            const char * a = TR, * b = exp;
            while (*a && *a == *b) { a++; b++; }
            if (strchr(b, '(') && b > exp && strncmp(b, "E-113", 5) != 0) why = "c02/wrong-entry-or-header";
            if (!strncmp(b, "E-113", 5) || (b > exp && !strncmp(b - 1, "E-113", 5))) why = "c02/undefined-header-not-reported";
            if (!strncmp(a, "E-113", 5) && strncmp(b, "E-113", 5)) why = "c02/defined-header-reported-undefined";
        }
        mc_viol(why, "table {%s%s%s%s%s} message [%s]: trace [%s], reference [%s]", pool[tab_ids[0]], tab_n > 1 ? ", " : "", tab_n > 1 ? pool[tab_ids[1]] : "", tab_n > 2 ? ", " : "", tab_n > 2 ? pool[tab_ids[2]] : "", mc_e(msg, ml), mc_es(TR), mc_es(exp));
        return;
    }
    if ((int) SCPI_ErrorCount(&T.ctx) != nund + nfail) { mc_viol("c02/error-count", "message [%s]: %d errors queued, %d undefined headers + %d failing handlers", mc_e(msg, ml), (int) SCPI_ErrorCount(&T.ctx), nund, nfail); return; }
#if USE_DEVICE_DEPENDENT_ERROR_INFORMATION
    {
        int seen = 0, total = nund + nfail;
        for (i = 0; i < total; i++) {
            char info[300];
            int code = tc_pop(&T, info, sizeof info);
            if (code == SCPI_ERROR_EXECUTION_ERROR) continue;
            #if !USE_MEMORY_ALLOCATION_FREE
            if (code == SCPI_ERROR_UNDEFINED_HEADER && seen < nund && info[0] == 0) { seen++; continue; }     /* static info heap exhausted by the earlier texts of this message: the error is queued without text */
#endif
            if (code != SCPI_ERROR_UNDEFINED_HEADER || seen >= nund || !strstr(info, und[seen])) { mc_viol("c02/undefined-header-text", "message [%s]: queued error %d is %d with text [%s], expected -113 carrying [%s]", mc_e(msg, ml), i, code, mc_es(info), seen < nund ? und[seen] : "(none)"); return; }
            seen++;
        }
        if (seen != nund) { mc_viol("c02/undefined-header-text", "message [%s]: %d of %d -113 errors found in the queue", mc_e(msg, ml), seen, nund); return; }
    }
#else
    (void) i;
#endif
    mc_outcome(mc_hash(TR, TRN, 0));
}

static void run_table(int K) {
    int units[6], k, i;
    for (k = 1; k <= K; k++) {
        for (i = 0; i < k; i++) units[i] = 0;
        for (;;) {
            int style;
            for (style = 0; style < 2; style++) {
                if (k == 1 && style) continue;
                if (MC_CASE()) { mc_case_tag = "message"; mc_case_i[0] = tab_ids[0]; mc_case_i[1] = tab_n > 1 ? tab_ids[1] : -1; mc_case_i[2] = tab_n > 2 ? tab_ids[2] : -1; run_message(units, k, style); }
            }
            for (i = k - 1; i >= 0; i--) { if (++units[i] < NSPELL) break; units[i] = 0; }
            if (i < 0) break;
        }
    }
}

/* a command table of 300 entries C0..C299 (tag = 70000 + index): the first match may lie anywhere in the table, an undefined header
 * makes the search run to the terminator */
static scpi_result_t h_big(scpi_t * c) { tr_printf("B%d;", (int) SCPI_CmdTag(c)); return SCPI_RES_OK; }
static void big_table(void) {
    static scpi_command_t bt[302];
    static char names[300][8];
    static const int probe[] = {0, 1, 17, 127, 128, 129, 254, 255, 256, 257, 258, 299, 300, 511};
    int i, a, b, np = (int) (sizeof probe / sizeof probe[0]);
    for (i = 0; i < 300; i++) { sprintf(names[i], "C%d", i); bt[i].pattern = names[i]; bt[i].callback = h_big; bt[i].tag = 70000 + i; }
    bt[300].pattern = NULL; bt[300].callback = NULL; bt[300].tag = 0;
    for (a = 0; a < np; a++) for (b = -1; b < np; b++) {
        char msg[64], exp[64]; int ml, el = 0;
        if (!MC_CASE()) continue;
        ml = b < 0 ? sprintf(msg, "C%d\n", probe[a]) : sprintf(msg, "c%d;:C%d\n", probe[a], probe[b]);
        el += probe[a] < 300 ? sprintf(exp + el, "B%d;", 70000 + probe[a]) : sprintf(exp + el, "E-113;");
        if (b >= 0) el += probe[b] < 300 ? sprintf(exp + el, "B%d;", 70000 + probe[b]) : sprintf(exp + el, "E-113;");
        mc_case_tag = "big-table"; mc_case_s[0] = (const unsigned char *) msg; mc_case_n[0] = (size_t) ml;
        tc_reinit(&T, bt); tr_reset();
        SCPI_Input(&T.ctx, msg, ml);
        n_msgs++;
        if (strcmp(TR, exp)) mc_viol("c02/big-table", "table C0..C299, message [%s]: trace [%s], reference [%s]", mc_e(msg, (size_t) ml), mc_es(TR), exp);
    }
}

static void set_table(const int * ids, int n) {
    int i;
    tab_n = n;
    for (i = 0; i < n; i++) { tab_ids[i] = ids[i]; table[i].pattern = pool[ids[i]]; table[i].callback = handler; table[i].tag = 100000 * (i + 1) + ids[i];       /* beyond 16 bits */ }
    table[n].pattern = NULL; table[n].callback = NULL; table[n].tag = 0;
}

int main(int argc, char ** argv) {
    int a, b, c, ids[NPOOL], K, voc;
    unsigned long long ntab = 0;
    mc_init(argc, argv);
    mc_tail_poison = 1;
    tc_log_flush = 0;        /* queries of this table answer nothing: the (empty) response framing is C06's subject */
    tc_init(&T, table, 256, 16);
    K = mc_thorough ? 4 : 3;
    for (voc = 0; voc < 3; voc++) {
        pool = voc == 2 ? pool3 : voc ? pool2 : pool1; spell = voc == 2 ? spell3 : voc ? spell2 : spell1; npool = voc == 2 ? NPOOL3 : voc ? NPOOL2 : NPOOL; NSPELL = voc == 2 ? NSPELL3 : voc ? NSPELL2 : NSPELL1;
        for (a = 0; a < npool; a++) { pool_rp[a] = rp_parse(pool[a]); if (!pool_rp[a].ok) { printf("VIOL idx=0 sig=c02/harness :: pattern %s\n", pool[a]); return 2; } }
        for (a = 0; a < npool; a++) for (b = 0; b < npool; b++) {
            if (a == b) continue;
            ids[0] = a; ids[1] = b; set_table(ids, 2); run_table(voc && mc_thorough ? 3 : K); ntab++;
            for (c = 0; c < npool && !(voc && !mc_thorough); c++) {
                if (c == a || c == b) continue;
                ids[2] = c; set_table(ids, 3); run_table(mc_thorough ? 3 : 2); ntab++;
            }
        }
        for (a = 0; a < npool; a++) ids[a] = a;
        set_table(ids, npool); run_table(K); ntab++;
        for (a = 0; a < npool; a++) ids[a] = npool - 1 - a;
        set_table(ids, npool); run_table(K); ntab++;
    }
    big_table();
    if (mc_shard == 0) {
        mc_sample("table {AAAA[:Dd]:Ee, AAAA:Ee} message [AAAA:Bb;Ee;*XY;Ee\\n] -> H(AAAA:Bb) H(AAAA:Ee) by the FIRST entry, H(*XY), -113 for Ee");
        mc_sample("table {AAAA:Cc#, Bb} message [aaaa:BB? ; ZZ ; Cc1\\n]");
    }
    mc_stat("max_tables", ntab);
    mc_stat("impl_calls", n_msgs);
    mc_stat("nontrivial", n_msgs);
    mc_stat("units", n_units);
    mc_stat("units_matched", n_matched);
    mc_stat("units_undefined", n_undefined);
    mc_stat("units_with_composed_header", n_composed);
    mc_stat("units_where_a_later_entry_also_matches", n_shadowed);
    tc_free(&T);
    return mc_finish();
}
