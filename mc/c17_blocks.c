/* c17_blocks.c - C17: binary results are valid definite-length blocks in the requested byte order.
 * Bounded-exhaustive, inside a real query handler (SCPI_Input -> handler -> SCPI_Result*):
 *   arrays:   10 element types x counts 0..300 x {NORMAL, SWAPPED} x 4 value patterns, each followed by
 *             SCPI_ResultInt32(7) to observe item accounting; uint16[40000] and int64[9000] (blocks > 64 KiB)
 *   blocks:   SCPI_ResultArbitraryBlock of every length 0..1100 x 3 byte patterns; 65535, 65536, 70000 bytes
 *             one-shot and streamed in 4096-byte calls
 *   headers:  SCPI_ResultArbitraryBlockHeader for 10^k-1, 10^k, 10^k+1 (k <= 8) and 999999999
 *   scripts:  every sequence of <= 5 calls over {Header(0), Header(1), Header(2), Header(4), Data(0..3), one-shot Block(2),
 *             one-element int16 array in either byte order} that a
 *             handler can sensibly make (data only into an open block, or over-length data that must be refused),
 *             incl. abandoned blocks followed by a new header, then SCPI_ResultInt32(7)
 * Oracle: independent encoder ('#', digit count, decimal byte count, elements big-endian for NORMAL and
 * little-endian for SWAPPED), byte-exact output, -310 for every refused data call and nothing emitted for it, the
 * ',' in front of the next result iff the block was completed.
 */
#include "ctx.h"

static unsigned long long n_cases = 0, n_nontrivial = 0, n_refused = 0;

/* ---- what the handler has to do ---- */
enum { J_ARRAY, J_BLOCK, J_BLOCK_STREAM, J_HEADER, J_SCRIPT };
static int h_errs2;
static scpi_result_t h_part(scpi_t * c) { int e0 = tc_nerr; SCPI_ResultArbitraryBlockHeader(c, 10); SCPI_ResultArbitraryBlockData(c, "abcd", 4); h_errs2 += tc_nerr - e0; return SCPI_RES_OK; }
static scpi_result_t h_stray(scpi_t * c) { int e0 = tc_nerr; SCPI_ResultArbitraryBlockData(c, "xyz", 3); SCPI_ResultInt32(c, 7); h_errs2 += tc_nerr - e0; return SCPI_RES_OK; }
static int job, j_type, j_format; static size_t j_count, j_len;
static void * j_data;
static int j_script[8], j_nscript;
static const char scriptdata[] = "wxyz";

static int h_errs;
static scpi_result_t h_q(scpi_t * c) {
    int i;
    switch (job) {
        case J_ARRAY:
            switch (j_type) {
                case 0: SCPI_ResultArrayInt8(c, (const int8_t *) j_data, j_count, (scpi_array_format_t) j_format); break;
                case 1: SCPI_ResultArrayUInt8(c, (const uint8_t *) j_data, j_count, (scpi_array_format_t) j_format); break;
                case 2: SCPI_ResultArrayInt16(c, (const int16_t *) j_data, j_count, (scpi_array_format_t) j_format); break;
                case 3: SCPI_ResultArrayUInt16(c, (const uint16_t *) j_data, j_count, (scpi_array_format_t) j_format); break;
                case 4: SCPI_ResultArrayInt32(c, (const int32_t *) j_data, j_count, (scpi_array_format_t) j_format); break;
                case 5: SCPI_ResultArrayUInt32(c, (const uint32_t *) j_data, j_count, (scpi_array_format_t) j_format); break;
                case 6: SCPI_ResultArrayInt64(c, (const int64_t *) j_data, j_count, (scpi_array_format_t) j_format); break;
                case 7: SCPI_ResultArrayUInt64(c, (const uint64_t *) j_data, j_count, (scpi_array_format_t) j_format); break;
                case 8: SCPI_ResultArrayFloat(c, (const float *) j_data, j_count, (scpi_array_format_t) j_format); break;
                default: SCPI_ResultArrayDouble(c, (const double *) j_data, j_count, (scpi_array_format_t) j_format); break;
            }
            SCPI_ResultInt32(c, 7);
            break;
        case J_BLOCK: SCPI_ResultArbitraryBlock(c, j_data, j_len); SCPI_ResultInt32(c, 7); break;
        case J_BLOCK_STREAM: {
            size_t off = 0;
            SCPI_ResultArbitraryBlockHeader(c, j_len);
            while (off < j_len) { size_t k = j_len - off < 4096 ? j_len - off : 4096; SCPI_ResultArbitraryBlockData(c, (const char *) j_data + off, k); off += k; }
            SCPI_ResultInt32(c, 7);
            break;
        }
        case J_HEADER: SCPI_ResultArbitraryBlockHeader(c, j_len); break;
        default:
            for (i = 0; i < j_nscript; i++) {
                static const int16_t one[1] = {0x4142};
                if (j_script[i] < 4) SCPI_ResultArbitraryBlockHeader(c, (size_t) (j_script[i] == 3 ? 4 : j_script[i]));
                else if (j_script[i] < 8) SCPI_ResultArbitraryBlockData(c, scriptdata, (size_t) (j_script[i] - 4));
                else if (j_script[i] == 8) SCPI_ResultArbitraryBlock(c, "PQ", 2);
                else SCPI_ResultArrayInt16(c, one, 1, j_script[i] == 9 ? SCPI_FORMAT_SWAPPED : SCPI_FORMAT_NORMAL);
            }
            SCPI_ResultInt32(c, 7);
            break;
    }
    h_errs = tc_nerr;            /* errors raised by the result calls themselves; what the library adds once the handler has returned is not this property's subject */
    return SCPI_RES_OK;
}
static const scpi_command_t cmds[] = { {"Q?", h_q, 1}, {"PART?", h_part, 2}, {"STRAY?", h_stray, 3}, SCPI_CMD_LIST_END };
static tc_t T;

/* ---- independent encoder: appends to E ---- */
static unsigned char * E; static size_t EN, ECAP;
static void e_put(const void * p, size_t n) { if (EN + n > ECAP) { ECAP = (EN + n) * 2 + 64; E = (unsigned char *) realloc(E, ECAP); } memcpy(E + EN, p, n); EN += n; }
static void e_header(unsigned long long nbytes) { char h[32], d[24]; int dl = sprintf(d, "%llu", nbytes); int hl = sprintf(h, "#%d%s", dl, d); e_put(h, (size_t) hl); }

static void run_and_compare(const char * sigclass, const char * descr, int expect_errors) {
    uint64_t h = 0xcbf29ce484222325ULL;
    size_t i;
    tc_reinit(&T, cmds); tr_reset(); h_errs = 0;
    SCPI_Input(&T.ctx, "Q?\n", 3);
    n_cases++;
    for (i = 0; i < EN; i++) { h ^= E[i]; h *= 0x100000001b3ULL; }
    if (OUT_TOTAL != EN || OUT_HASH != h) {
        char sig[96];
        size_t k = 0, lim = OUTN < EN ? OUTN : EN;
        while (k < lim && (unsigned char) OUT[k] == E[k]) k++;
        snprintf(sig, sizeof sig, "c17/%s/%s", sigclass, OUT_TOTAL != EN ? "length" : "bytes");
        mc_viol(sig, "%s: %llu bytes written, encoder expects %llu; first difference at offset %d: got [%s] expected [%s]", descr, OUT_TOTAL, (unsigned long long) EN, (int) k,
                mc_e(OUT + (k > 4 ? k - 4 : 0), (OUTN - (k > 4 ? k - 4 : 0)) < 24 ? (OUTN - (k > 4 ? k - 4 : 0)) : 24), mc_e(E + (k > 4 ? k - 4 : 0), (EN - (k > 4 ? k - 4 : 0)) < 24 ? (EN - (k > 4 ? k - 4 : 0)) : 24));
        return;
    }
    if (expect_errors >= 0) {
        /* "refused with an error": one error per refused call, whichever number the library chooses for it (-310 on the pinned tree) */
        if (h_errs != expect_errors) { char sig[96]; snprintf(sig, sizeof sig, "c17/%s/refusal-error", sigclass); mc_viol(sig, "%s: %d errors raised inside the handler (first %d), expected %d (one per refused data call)", descr, h_errs, tc_nerr ? tc_errs[0] : 0, expect_errors); return; }
    }
    n_nontrivial++;
    mc_outcome(h ^ EN);
}

static uint64_t pattern(int p, size_t i) {
    uint64_t b = 0x0102030405060708ULL + (uint64_t) i * 0x0101010101010101ULL;
    switch (p) { case 0: return b; case 1: return ~b; case 2: return 0; default: return ((uint64_t) i + 1) * 0x9E3779B97F4A7C15ULL; }
}

int main(int argc, char ** argv) {
    static const int width[10] = {1, 1, 2, 2, 4, 4, 8, 8, 4, 8};
    static const char * tname[10] = {"int8", "uint8", "int16", "uint16", "int32", "uint32", "int64", "uint64", "float", "double"};
    int t, f, p, k;
    size_t n, i;
    char descr[400];
    mc_init(argc, argv);
    tc_init(&T, cmds, 64, 8);

    /* ---- arrays ---- */
    for (t = 0; t < 10; t++) for (f = 1; f <= 2; f++) for (p = 0; p < 4; p++) {
        size_t maxn = mc_thorough ? 2000 : 300;
        for (n = 0; n <= maxn + 2; n++) {
            size_t cnt = n <= maxn ? n : (n == maxn + 1 ? (t == 3 ? 40000 : 0) : (t == 6 ? 9000 : 0));
            int w = width[t];
            unsigned char * data;
            if (n > maxn && (cnt == 0 || p != 0)) continue;
            if (!MC_CASE()) continue;
            mc_case_tag = "array"; mc_case_i[0] = t; mc_case_i[1] = f; mc_case_i[2] = p; mc_case_i[3] = (long long) cnt;
            data = (unsigned char *) malloc(cnt * (size_t) w);          /* exact size */
            EN = 0; e_header((unsigned long long) cnt * (unsigned) w);
            for (i = 0; i < cnt; i++) {
                uint64_t v = pattern(p, i);
                unsigned char be[8];
                int b;
                if (w < 8) v &= (1ULL << (8 * w)) - 1;
                /* host representation */
                switch (w) { case 1: { uint8_t x = (uint8_t) v; memcpy(data + i, &x, 1); break; } case 2: { uint16_t x = (uint16_t) v; memcpy(data + 2 * i, &x, 2); break; } case 4: { uint32_t x = (uint32_t) v; memcpy(data + 4 * i, &x, 4); break; } default: memcpy(data + 8 * i, &v, 8); break; }
                for (b = 0; b < w; b++) be[b] = (unsigned char) (v >> (8 * (w - 1 - b)));
                if (f == SCPI_FORMAT_SWAPPED) { unsigned char le[8]; for (b = 0; b < w; b++) le[b] = be[w - 1 - b]; e_put(le, (size_t) w); } else e_put(be, (size_t) w);
            }
            e_put(",7\r\n", 4);
            job = J_ARRAY; j_type = t; j_format = f; j_count = cnt; j_data = data;
            snprintf(descr, sizeof descr, "SCPI_ResultArray of %d %s, format %s, pattern %d, then SCPI_ResultInt32(7)", (int) cnt, tname[t], f == 1 ? "NORMAL" : "SWAPPED", p);
            run_and_compare("array", descr, 0);
            free(data);
        }
    }
    /* ---- the empty array / block handed over as (NULL, 0) ---- */
    for (t = 0; t <= 10; t++) for (f = 1; f <= 2; f++) {
        if (!MC_CASE()) continue;
        mc_case_tag = "null-empty"; mc_case_i[0] = t; mc_case_i[1] = f;
        EN = 0; e_header(0); e_put(",7\r\n", 4);
        if (t < 10) { job = J_ARRAY; j_type = t; j_format = f; j_count = 0; j_data = NULL; snprintf(descr, sizeof descr, "SCPI_ResultArray(NULL, 0) of %s, format %s, then SCPI_ResultInt32(7)", tname[t], f == 1 ? "NORMAL" : "SWAPPED"); }
        else { job = J_BLOCK; j_len = 0; j_data = NULL; snprintf(descr, sizeof descr, "SCPI_ResultArbitraryBlock(NULL, 0), then SCPI_ResultInt32(7)"); }
        run_and_compare(t < 10 ? "array" : "block", descr, 0);
    }
    /* ---- arbitrary blocks ---- */
    for (p = 0; p < 3; p++) for (n = 0; n <= 1103; n++) {
        size_t len = n <= 1100 ? n : (n == 1101 ? 65535 : n == 1102 ? 65536 : 70000);
        int stream;
        for (stream = 0; stream < 2; stream++) {
            unsigned char * data;
            if (stream && n <= 1100 && n % 50) continue;
            if (!MC_CASE()) continue;
            mc_case_tag = "block"; mc_case_i[0] = (long long) len; mc_case_i[1] = p; mc_case_i[2] = stream;
            data = (unsigned char *) malloc(len);
            for (i = 0; i < len; i++) data[i] = (unsigned char) (p == 0 ? i : p == 1 ? (i % 3 == 0 ? '\n' : i % 3 == 1 ? ';' : '#') : 0xFF);
            EN = 0; e_header(len); e_put(data, len); e_put(",7\r\n", 4);
            job = stream ? J_BLOCK_STREAM : J_BLOCK; j_len = len; j_data = data;
            snprintf(descr, sizeof descr, "SCPI_ResultArbitraryBlock%s of %d bytes, pattern %d, then SCPI_ResultInt32(7)", stream ? " (header + 4096-byte data calls)" : "", (int) len, p);
            if (stream && len == 0) { EN = 0; e_header(0); e_put("7\r\n", 3); }     /* header without any data call: block never completed */
            run_and_compare("block", descr, 0);
            free(data);
        }
    }
    /* ---- headers for large lengths ---- */
    {
        unsigned long long pw = 1;
        for (k = 0; k <= 9; k++) {
            int d;
            for (d = -1; d <= 1; d++) {
                unsigned long long len = k == 9 ? 999999999ULL : pw + (unsigned long long) d;
                if (k == 9 && d != 0) continue;
                if (k == 0 && d < 0) continue;
                if (!MC_CASE()) continue;
                mc_case_tag = "header"; mc_case_i[0] = (long long) len;
                EN = 0; e_header(len); e_put("\r\n", 2);
                job = J_HEADER; j_len = (size_t) len;
                snprintf(descr, sizeof descr, "SCPI_ResultArbitraryBlockHeader(%llu)", len);
                run_and_compare("header", descr, 0);
            }
            pw *= 10;
        }
    }
    /* ---- scripts ---- */
    {
        int L, idx[8], maxL = mc_thorough ? 6 : 5;
        for (L = 1; L <= maxL; L++) {
            for (i = 0; i < (size_t) L; i++) idx[i] = 0;
            for (;;) {
                /* model */
                long remaining = -1;       /* -1: no block open */
                int count = 0, refused = 0, sane = 1, o = 0;
                EN = 0;
                for (i = 0; i < (size_t) L && sane; i++) {
                    int op = idx[i];
                    if (op < 4) { long hn = op == 3 ? 4 : op; if (count > 0) e_put(",", 1); e_header((unsigned long long) hn); remaining = hn; }
                    else if (op < 8) {
                        long dk = op - 4;
                        if (remaining < 0) { if (dk == 0) sane = 0; else refused++; }           /* no open block: zero-length data is meaningless, real data must be refused */
                        else if (dk > remaining) refused++;
                        else { e_put(scriptdata, (size_t) dk); remaining -= dk; if (remaining == 0) { count++; remaining = -1; } }
                    } else {
                        /* a complete block in one call (abandons whatever was open): "PQ", or one int16 0x4142 in either byte order */
                        if (count > 0) e_put(",", 1);
                        e_header(2);
                        e_put(op == 8 ? "PQ" : op == 9 ? "\x42\x41" : "\x41\x42", 2);
                        count++; remaining = -1;
                    }
                    o += snprintf(descr + o, sizeof descr - (size_t) o, op < 4 ? "Header(%d) " : op < 8 ? "Data(%d) " : op == 8 ? "Block(2)%.0d " : op == 9 ? "ArrayInt16[1]/SWAPPED%.0d " : "ArrayInt16[1]/NORMAL%.0d ", op < 4 ? (op == 3 ? 4 : op) : op < 8 ? op - 4 : 0);
                }
                if (sane && MC_CASE()) {
                    if (count > 0) e_put(",", 1);
                    e_put("7\r\n", 3);
                    mc_case_tag = "script"; mc_case_s[0] = (const unsigned char *) descr; mc_case_n[0] = (size_t) o;
                    job = J_SCRIPT; j_nscript = L; for (i = 0; i < (size_t) L; i++) j_script[i] = idx[i];
                    snprintf(descr + o, sizeof descr - (size_t) o, "then SCPI_ResultInt32(7)");
                    n_refused += (unsigned long long) refused;
                    run_and_compare("script", descr, refused);
                }
                for (k = L - 1; k >= 0; k--) { if (++idx[k] < 11) break; idx[k] = 0; }
                if (k < 0) break;
            }
        }
    }
    /* block accounting is per unit: data without header is refused also behind a unit that left a block unfinished */
    {
        static const struct { const char * msg; const char * exp; int n310; } mu[] = {
            {"PART?;STRAY?\n", "#210abcd;7\r\n", 1}, {"STRAY?\n", "7\r\n", 1}, {"PART?\n", "#210abcd\r\n", 0}, {"PART?;PART?;STRAY?;STRAY?\n", "#210abcd;#210abcd;7;7\r\n", 2},
        };
        for (k = 0; k < 4; k++) {
            int e, n310 = 0;
            if (!MC_CASE()) continue;
            mc_case_tag = "two-units"; mc_case_s[0] = (const unsigned char *) mu[k].msg; mc_case_n[0] = strlen(mu[k].msg);
            tc_reinit(&T, cmds); tr_reset(); h_errs2 = 0;
            SCPI_Input(&T.ctx, mu[k].msg, (int) strlen(mu[k].msg));
            n_cases++;
            (void) e; n310 = h_errs2;          /* errors raised inside the handlers, whatever their number */
            if (OUTN != strlen(mu[k].exp) || memcmp(OUT, mu[k].exp, OUTN) || n310 != mu[k].n310)
                mc_viol("c17/unit/stray-data-after-unfinished-block-of-previous-unit", "message [%s]: output [%s] with %d errors, expected [%s] with %d errors", mc_es(mu[k].msg), mc_e(OUT, OUTN), n310, mc_es(mu[k].exp), mu[k].n310);
            else n_nontrivial++;
        }
    }
    if (mc_shard == 0) {
        mc_sample("SCPI_ResultArrayUInt16 of 3 elements {0x0102, ...} NORMAL -> #16 01 02 ... then ,7");
        mc_sample("script Header(4) Data(2) Header(2) Data(1) Data(3) Data(1) then SCPI_ResultInt32(7): Data(3) refused with -310, ',' before 7");
        mc_sample("SCPI_ResultArbitraryBlock of 65536 bytes");
    }
    mc_stat("impl_calls", n_cases);
    mc_stat("nontrivial", n_nontrivial);
    mc_stat("refused_data_calls_expected", n_refused);
    tc_free(&T);
    free(E);
    return mc_finish();
}
