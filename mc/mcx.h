/* mcx.h - explicit-state breadth-first explorer whose transitions are calls of the real
 * implementation.
 *
 * A state is (key, snapshot): `key` is the canonical byte string used for deduplication (only
 * fields that can influence a future observable, pointers rewritten to offsets), `snapshot` is
 * whatever the harness needs to put the real objects back (may be empty if the state can be
 * rebuilt from the key).  For every state popped from the BFS queue and every operation of the
 * menu the harness's apply() is called on the restored implementation; it performs the real API
 * call, steps the reference model, checks the oracles (reporting through mcx_viol) and leaves
 * the implementation in the successor state, which is then saved, hashed and enqueued if new.
 * After restoring a state its key is recomputed and must equal the stored key (catches state
 * that the snapshot does not capture).  BFS => the first counterexample is a shortest one.
 */
#ifndef MCX_H
#define MCX_H
#include "mc.h"

typedef struct mcx {
    size_t key_size, snap_size;
    int nops;
    void (*load)(const unsigned char * key, const unsigned char * snap);
    void (*save)(unsigned char * key, unsigned char * snap);
    int (*apply)(int op);                       /* 1 executed, 0 operation not enabled here */
    void (*opname)(int op, char * buf, size_t n);
    unsigned long long max_states;
    int max_depth;                              /* 0 = unbounded (run to the fix-point) */
    /* results */
    unsigned long long states, transitions, disabled, revisits;
    int depth_reached, fixpoint, capped;      /* capped: stopped by the state limit or the deadline (a stated max_depth is not a cap) */
    /* storage */
    unsigned char * keys, * snaps;
    uint32_t * parent;
    uint16_t * opof;
    uint8_t * depth;
    uint32_t * table;
    size_t cap, tcap;
    /* current expansion (for traces) */
    uint32_t cur_state;
    int cur_op;
} mcx_t;

static mcx_t * mcx_cur = NULL;
static char mcx_tracebuf[8192];

static void mcx_render_trace(mcx_t * m, uint32_t st, int op) {
    uint32_t chain[512];
    int n = 0, i;
    size_t o = 0;
    char nm[128];
    while (st != 0 && n < 512) { chain[n++] = st; st = m->parent[st]; }
    mcx_tracebuf[0] = 0;
    for (i = n - 1; i >= 0; i--) {
        m->opname(m->opof[chain[i]], nm, sizeof nm);
        o += (size_t) snprintf(mcx_tracebuf + o, sizeof mcx_tracebuf - o, "%s; ", nm);
        if (o > sizeof mcx_tracebuf - 200) break;
    }
    if (op >= 0) {
        m->opname(op, nm, sizeof nm);
        snprintf(mcx_tracebuf + o, sizeof mcx_tracebuf - o, "=> %s", nm);
    }
}

/* violation inside apply(): trace from the initial state is appended */
static void mcx_viol(const char * sig, const char * fmt, ...) {
    char msg[1024];
    va_list ap;
    va_start(ap, fmt); vsnprintf(msg, sizeof msg, fmt, ap); va_end(ap);
    if (!mcx_cur || !mcx_cur->keys) { mc_viol(sig, "%s", msg); return; }      /* outside a search: the case is self-contained */
    mcx_render_trace(mcx_cur, mcx_cur->cur_state, mcx_cur->cur_op);
    mc_viol(sig, "%s | history: %s", msg, mcx_tracebuf);
}

static void mcx_grow(mcx_t * m) {
    size_t ncap = m->cap ? m->cap * 2 : 1024;
    mc_alive++; mc_wd_pause = 1;
    m->keys = (unsigned char *) realloc(m->keys, ncap * m->key_size);
    if (m->snap_size) m->snaps = (unsigned char *) realloc(m->snaps, ncap * m->snap_size);
    m->parent = (uint32_t *) realloc(m->parent, ncap * sizeof (uint32_t));
    m->opof = (uint16_t *) realloc(m->opof, ncap * sizeof (uint16_t));
    m->depth = (uint8_t *) realloc(m->depth, ncap);
    if (!m->keys || !m->parent || !m->opof || !m->depth || (m->snap_size && !m->snaps)) { fprintf(stderr, "mcx: out of memory\n"); exit(3); }
    m->cap = ncap;
    mc_wd_pause = 0; mc_alive++;
}

static void mcx_rehash(mcx_t * m) {
    size_t ntcap = m->tcap ? m->tcap * 2 : 4096, i;
    uint32_t * nt = (mc_wd_pause = 1, (uint32_t *) calloc(ntcap, sizeof (uint32_t)));
    mc_wd_pause = 0; mc_alive++;
    if (!nt) { fprintf(stderr, "mcx: out of memory\n"); exit(3); }
    for (i = 0; i < m->states; i++) {
        uint64_t h = mc_hash(m->keys + i * m->key_size, m->key_size, 0);
        size_t j = (size_t) (h & (ntcap - 1));
        if ((i & 0xffff) == 0) mc_alive++;
        while (nt[j]) j = (j + 1) & (ntcap - 1);
        nt[j] = (uint32_t) i + 1;
    }
    free(m->table);
    m->table = nt; m->tcap = ntcap;
}

/* returns index of the state, *isnew set */
static uint32_t mcx_intern(mcx_t * m, const unsigned char * key, const unsigned char * snap, uint32_t parent, int op, int depth, int * isnew) {
    uint64_t h;
    size_t j;
    if ((m->states + 1) * 2 > m->tcap) mcx_rehash(m);
    h = mc_hash(key, m->key_size, 0);
    j = (size_t) (h & (m->tcap - 1));
    while (m->table[j]) {
        uint32_t i = m->table[j] - 1;
        if (!memcmp(m->keys + (size_t) i * m->key_size, key, m->key_size)) { *isnew = 0; return i; }
        j = (j + 1) & (m->tcap - 1);
    }
    if (m->states == m->cap) mcx_grow(m);
    memcpy(m->keys + m->states * m->key_size, key, m->key_size);
    if (m->snap_size) memcpy(m->snaps + m->states * m->snap_size, snap, m->snap_size);
    m->parent[m->states] = parent;
    m->opof[m->states] = (uint16_t) op;
    m->depth[m->states] = (uint8_t) (depth > 255 ? 255 : depth);
    m->table[j] = (uint32_t) m->states + 1;
    *isnew = 1;
    return (uint32_t) m->states++;
}

/* the implementation must be in its initial state when this is called */
static void mcx_run(mcx_t * m) {
    unsigned char * key = (unsigned char *) malloc(m->key_size), * key2 = (unsigned char *) malloc(m->key_size);
    unsigned char * snap = (unsigned char *) malloc(m->snap_size ? m->snap_size : 1);
    uint32_t head = 0;
    int isnew, op;
    mcx_cur = m;
    m->fixpoint = 1;
    memset(key, 0, m->key_size);
    m->save(key, snap);
    mcx_intern(m, key, snap, 0, 0, 0, &isnew);
    while (head < m->states) {
        int d = m->depth[head];
        if (m->max_depth && d >= m->max_depth) { m->fixpoint = 0; head++; continue; }
        if (mc_deadline_hit()) { m->fixpoint = 0; m->capped = 1; break; }
        mcx_render_trace(m, head, -1);
        mc_case_tag = "bfs";
        mc_case_s[0] = (const unsigned char *) mcx_tracebuf; mc_case_n[0] = strlen(mcx_tracebuf);
        for (op = 0; op < m->nops; op++) {
            /* (arrays may be reallocated by mcx_intern: take the pointers afresh for every operation) */
            m->load(m->keys + (size_t) head * m->key_size, m->snap_size ? m->snaps + (size_t) head * m->snap_size : NULL);
            if (op == 0) {       /* restore check: recomputed key must equal the stored key */
                memset(key2, 0, m->key_size);
                m->save(key2, snap);
                if (memcmp(key2, m->keys + (size_t) head * m->key_size, m->key_size)) {
                    m->cur_state = head; m->cur_op = -1;
                    mcx_viol("harness/restore-mismatch", "restored state differs from stored key");
                }
            }
            m->cur_state = head; m->cur_op = op;
            mc_idx++; mc_case_i[0] = op; mc_case_i[1] = head;
            if (!m->apply(op)) { m->disabled++; continue; }
            m->transitions++;
            memset(key, 0, m->key_size);
            m->save(key, snap);
            mcx_intern(m, key, snap, head, op, d + 1, &isnew);
            if (!isnew) m->revisits++;
            else if (d + 1 > m->depth_reached) m->depth_reached = d + 1;
            if (m->max_states && m->states >= m->max_states) { m->fixpoint = 0; m->capped = 1; goto out; }
        }
        head++;
    }
out:
    if (m->capped) printf("CAP bfs stopped before the fix-point / depth bound: states=%llu depth=%d\n", m->states, m->depth_reached);
    free(key); free(key2); free(snap);
}

static void mcx_free(mcx_t * m) {
    free(m->keys); free(m->snaps); free(m->parent); free(m->opof); free(m->depth); free(m->table);
    m->keys = m->snaps = NULL; m->parent = NULL; m->opof = NULL; m->depth = NULL; m->table = NULL;
    m->cap = m->tcap = 0;
}
#endif
