/* c11_status.c - C11 (status byte = summary of the registers behind it) and C12 (events are
 * classified, latched and announced): explicit-state exploration of the real register machine.
 *
 * State  = the ten 16-bit registers + number of queued errors (the queue's codes cannot influence
 *          a register or an SRQ callback, so they are not part of the key; DESIGN.md section 3/C11).
 * Ops    = SCPI_RegSet / SetBits / ClearBits on the nine writable registers with every combination
 *          of the representative bits, error push (one code per class used in this model), pop,
 *          clear, and the status commands through SCPI_Input.  STB itself is never written.
 * Oracle = C11 invariant in every state; C12 latch / clear / SRQ rules on every transition;
 *          C12 classification for all 65536 codes in a separate sweep.
 *
 * Build -DC12_MODE selects which property id the run reports for (the exploration is the same; the
 * violation signatures are prefixed c11/ or c12/ and each check only reports its own).
 */
#include "scpi/scpi.h"
#include "mcx.h"

#ifdef MC_CFG_NOINFO
#define HAVE_INFO 0
#else
#define HAVE_INFO 1
#endif

/* ---- system under test ------------------------------------------------------------------ */
static scpi_t ctx, ctx0;
static char ibuf[64];
#define QCAP 2
static scpi_error_t ering[QCAP];
static char outbuf[256]; static size_t outn;

/* SRQ callback log of the current transition */
static struct { uint16_t val, stb; } srq[32];
static int nsrq;
static unsigned long long total_srq = 0, total_err_cb = 0;

static size_t if_write(scpi_t * c, const char * d, size_t n) { (void) c; if (outn + n < sizeof outbuf) { memcpy(outbuf + outn, d, n); outn += n; } return n; }
static int if_error(scpi_t * c, int_fast16_t e) { (void) c; (void) e; total_err_cb++; return 0; }
static scpi_result_t if_control(scpi_t * c, scpi_ctrl_name_t ctrl, scpi_reg_val_t val) {
    if (ctrl == SCPI_CTRL_SRQ) {
        if (nsrq < 32) { srq[nsrq].val = val; srq[nsrq].stb = SCPI_RegGet(c, SCPI_REG_STB); nsrq++; }
        total_srq++;
    }
    return SCPI_RES_OK;
}
static scpi_result_t if_flush(scpi_t * c) { (void) c; return SCPI_RES_OK; }
static scpi_interface_t itf = { if_error, if_write, if_control, if_flush, NULL };

static const scpi_command_t cmds[] = {
    {"*CLS", SCPI_CoreCls, 0}, {"*ESE", SCPI_CoreEse, 0}, {"*ESE?", SCPI_CoreEseQ, 0}, {"*ESR?", SCPI_CoreEsrQ, 0},
    {"*OPC", SCPI_CoreOpc, 0}, {"*OPC?", SCPI_CoreOpcQ, 0}, {"*SRE", SCPI_CoreSre, 0}, {"*SRE?", SCPI_CoreSreQ, 0},
    {"*STB?", SCPI_CoreStbQ, 0}, {"*RST", SCPI_CoreRst, 0}, {"*TST?", SCPI_CoreTstQ, 0}, {"*WAI", SCPI_CoreWai, 0}, {"*IDN?", SCPI_CoreIdnQ, 0}, {"SYSTem:VERSion?", SCPI_SystemVersionQ, 0},
    {"SYSTem:ERRor[:NEXT]?", SCPI_SystemErrorNextQ, 0}, {"SYSTem:ERRor:COUNt?", SCPI_SystemErrorCountQ, 0},
    {"STATus:QUEStionable[:EVENt]?", SCPI_StatusQuestionableEventQ, 0},
    {"STATus:QUEStionable:CONDition?", SCPI_StatusQuestionableConditionQ, 0},
    {"STATus:QUEStionable:ENABle", SCPI_StatusQuestionableEnable, 0},
    {"STATus:QUEStionable:ENABle?", SCPI_StatusQuestionableEnableQ, 0},
    {"STATus:OPERation[:EVENt]?", SCPI_StatusOperationEventQ, 0},
    {"STATus:OPERation:CONDition?", SCPI_StatusOperationConditionQ, 0},
    {"STATus:OPERation:ENABle", SCPI_StatusOperationEnable, 0},
    {"STATus:OPERation:ENABle?", SCPI_StatusOperationEnableQ, 0},
    {"STATus:PRESet", SCPI_StatusPreset, 0},
    SCPI_CMD_LIST_END
};

/* ---- representative bits -------------------------------------------------------------------- */
/* index by register name; up to 3 bits each; the active number of bits per register is nbits[] */
static uint16_t repbit[SCPI_REG_COUNT][3];
static int nbits[SCPI_REG_COUNT];
static const char * regname[SCPI_REG_COUNT] = {"STB", "SRE", "ESR", "ESE", "OPER", "OPERE", "OPERC", "QUES", "QUESE", "QUESC"};

/* ---- operations ------------------------------------------------------------------------------ */
enum { OP_REGSET, OP_SETBITS, OP_CLRBITS, OP_PUSH, OP_POP, OP_CLEAR, OP_CMD, OP_STBBACK };
typedef struct { int kind; int reg; uint16_t val; int16_t code; char text[48]; } op_t;
static op_t ops[400];
static int nops = 0;

static void add_op(int kind, int reg, uint16_t val, int code, const char * text) {
    op_t * o = &ops[nops++];
    o->kind = kind; o->reg = reg; o->val = val; o->code = (int16_t) code;
    snprintf(o->text, sizeof o->text, "%s", text ? text : "");
}

static void opname(int op, char * buf, size_t n) {
    const op_t * o = &ops[op];
    switch (o->kind) {
        case OP_REGSET: snprintf(buf, n, "RegSet(%s,0x%x)", regname[o->reg], o->val); break;
        case OP_SETBITS: snprintf(buf, n, "RegSetBits(%s,0x%x)", regname[o->reg], o->val); break;
        case OP_CLRBITS: snprintf(buf, n, "RegClearBits(%s,0x%x)", regname[o->reg], o->val); break;
        case OP_PUSH: snprintf(buf, n, "ErrorPush(%d)", o->code); break;
        case OP_POP: snprintf(buf, n, "ErrorPop"); break;
        case OP_CLEAR: snprintf(buf, n, "ErrorClear"); break;
        case OP_STBBACK: snprintf(buf, n, "RegSet(STB, STB & ~0x40)"); break;
        default: snprintf(buf, n, "Input(%s)", mc_es(o->text)); break;
    }
}

static uint16_t classbit(int code) {
    if (code <= -100 && code >= -199) return ESR_CER;
    if (code <= -200 && code >= -299) return ESR_EER;
    if (code <= -300 && code >= -399) return ESR_DER;
    if (code >= 1 && code <= 32767) return ESR_DER;
    if (code <= -400 && code >= -499) return ESR_QER;
    if (code <= -500 && code >= -599) return ESR_PON;
    if (code <= -600 && code >= -699) return ESR_URQ;
    if (code <= -700 && code >= -799) return ESR_REQ;
    if (code <= -800 && code >= -899) return ESR_OPC;
    return 0;
}

static void build_ops(void) {
    static const int wr[] = {SCPI_REG_ESR, SCPI_REG_ESE, SCPI_REG_OPER, SCPI_REG_OPERE, SCPI_REG_OPERC, SCPI_REG_QUES, SCPI_REG_QUESE, SCPI_REG_QUESC, SCPI_REG_SRE};
    int i, m, b;
    char t[48];
    nops = 0;
    for (i = 0; i < 9; i++) {
        int r = wr[i];
        for (m = 0; m < (1 << nbits[r]); m++) {
            uint16_t v = 0;
            for (b = 0; b < nbits[r]; b++) if (m & (1 << b)) v |= repbit[r][b];
            add_op(OP_REGSET, r, v, 0, NULL);
            if (m & (m - 1)) { add_op(OP_SETBITS, r, v, 0, NULL); add_op(OP_CLRBITS, r, v, 0, NULL); }      /* masks of two or more bits */
        }
        for (b = 0; b < nbits[r]; b++) {
            add_op(OP_SETBITS, r, repbit[r][b], 0, NULL);
            add_op(OP_CLRBITS, r, repbit[r][b], 0, NULL);
        }
    }
    /* a status-byte bit the library does not maintain itself (bit 4, message available): the application sets and clears it, and
     * it takes part in MSS like the four summary bits; SRE carries it in its third representative mask */
    add_op(OP_SETBITS, SCPI_REG_STB, 0x10, 0, NULL);
    add_op(OP_CLRBITS, SCPI_REG_STB, 0x10, 0, NULL);
    add_op(OP_STBBACK, 0, 0, 0, NULL);       /* the byte written back as read, bit 6 masked out */
    add_op(OP_PUSH, 0, 0, -100, NULL);     /* CER = ESR bit 5 = first representative bit of ESR/ESE */
    add_op(OP_PUSH, 0, 0, -600, NULL);     /* URQ = ESR bit 6 = second representative bit */
    add_op(OP_PUSH, 0, 0, -900, NULL);     /* no class */
    add_op(OP_POP, 0, 0, 0, NULL);
    add_op(OP_CLEAR, 0, 0, 0, NULL);
    add_op(OP_CMD, 0, 0, 0, "*RST;*WAI;*TST?;*IDN?;:SYST:VERS?\n");      /* commands that leave the status structure alone */
    add_op(OP_CMD, 0, 0, 0, "*CLS\n");
    add_op(OP_CMD, 0, 0, 0, "*ESR?\n");
    add_op(OP_CMD, 0, 0, 0, "*STB?\n");
    add_op(OP_CMD, 0, 0, 0, "*OPC\n");
    add_op(OP_CMD, 0, 0, 0, "STAT:OPER?\n");
    add_op(OP_CMD, 0, 0, 0, "STAT:QUES?\n");
    add_op(OP_CMD, 0, 0, 0, "STAT:OPER:COND?;:STAT:QUES:COND?\n");
    add_op(OP_CMD, 0, 0, 0, "STAT:PRES\n");
    add_op(OP_CMD, 0, 0, 0, "SYST:ERR?\n");
    add_op(OP_CMD, 0, 0, 0, "SYST:ERR:COUN?;:*ESE?;*SRE?\n");
    add_op(OP_CMD, 0, 0, 0, "UNDEFINED:HEADER\n");        /* raises -113 through the parser */
    {
        static const struct { int reg; const char * cmd; } en[] = {
            {SCPI_REG_ESE, "*ESE"}, {SCPI_REG_SRE, "*SRE"}, {SCPI_REG_OPERE, "STAT:OPER:ENAB"}, {SCPI_REG_QUESE, "STAT:QUES:ENAB"}};
        for (i = 0; i < 4; i++) {
            int r = en[i].reg;
            for (m = 0; m < (1 << nbits[r]); m++) {
                uint16_t v = 0;
                for (b = 0; b < nbits[r]; b++) if (m & (1 << b)) v |= repbit[r][b];
                snprintf(t, sizeof t, "%s %u\n", en[i].cmd, v);
                add_op(OP_CMD, r, v, 0, t);
            }
        }
    }
}

/* ---- state save / load ------------------------------------------------------------------------ */
#define KEYSZ (SCPI_REG_COUNT * 2 + 2)

static void st_save(unsigned char * key, unsigned char * snap) {
    int i;
    (void) snap;
    for (i = 0; i < SCPI_REG_COUNT; i++) { uint16_t v = SCPI_RegGet(&ctx, (scpi_reg_name_t) i); key[2 * i] = (unsigned char) (v & 0xff); key[2 * i + 1] = (unsigned char) (v >> 8); }
    key[2 * SCPI_REG_COUNT] = (unsigned char) SCPI_ErrorCount(&ctx);
    key[2 * SCPI_REG_COUNT + 1] = 0;
}

static void st_load(const unsigned char * key, const unsigned char * snap) {
    int i, cnt = key[2 * SCPI_REG_COUNT];
    (void) snap;
    /* pristine context, then the queue fill, then the register file */
    memcpy(&ctx, &ctx0, sizeof ctx);
    memset(ering, 0, sizeof ering);
    for (i = 0; i < cnt; i++) SCPI_ErrorPush(&ctx, -900);
    for (i = 0; i < SCPI_REG_COUNT; i++) ctx.registers[i] = (uint16_t) (key[2 * i] | (key[2 * i + 1] << 8));
    ctx.cmd_error = FALSE;
}

/* ---- oracle ------------------------------------------------------------------------------------ */
static unsigned long long n_checks = 0, n_mss_rise = 0, n_latch = 0, n_nontrivial = 0;
static int do_c11 = 1, do_c12 = 1;

static void check_c11(const char * when) {
    uint16_t stb = SCPI_RegGet(&ctx, SCPI_REG_STB), sre = SCPI_RegGet(&ctx, SCPI_REG_SRE);
    int e5 = (SCPI_RegGet(&ctx, SCPI_REG_ESR) & SCPI_RegGet(&ctx, SCPI_REG_ESE)) != 0;
    int e7 = (SCPI_RegGet(&ctx, SCPI_REG_OPER) & SCPI_RegGet(&ctx, SCPI_REG_OPERE)) != 0;
    int e3 = (SCPI_RegGet(&ctx, SCPI_REG_QUES) & SCPI_RegGet(&ctx, SCPI_REG_QUESE)) != 0;
    int e2 = SCPI_ErrorCount(&ctx) > 0;
    int e6;
    n_checks++;
    if (!do_c11) return;
    if (((stb & STB_ESR) != 0) != e5) mcx_viol("c11/esb-summary", "%s: STB=0x%x bit5 but ESR=0x%x ESE=0x%x", when, stb, SCPI_RegGet(&ctx, SCPI_REG_ESR), SCPI_RegGet(&ctx, SCPI_REG_ESE));
    if (((stb & STB_OPS) != 0) != e7) mcx_viol("c11/oper-summary", "%s: STB=0x%x bit7 but OPER=0x%x OPERE=0x%x", when, stb, SCPI_RegGet(&ctx, SCPI_REG_OPER), SCPI_RegGet(&ctx, SCPI_REG_OPERE));
    if (((stb & STB_QES) != 0) != e3) mcx_viol("c11/ques-summary", "%s: STB=0x%x bit3 but QUES=0x%x QUESE=0x%x", when, stb, SCPI_RegGet(&ctx, SCPI_REG_QUES), SCPI_RegGet(&ctx, SCPI_REG_QUESE));
    if (((stb & STB_QMA) != 0) != e2) mcx_viol("c11/error-available", "%s: STB=0x%x bit2 but %d errors queued", when, stb, (int) SCPI_ErrorCount(&ctx));
    e6 = ((stb & ~STB_SRQ) & sre & 0xff) != 0;
    if (((stb & STB_SRQ) != 0) != e6) mcx_viol("c11/mss", "%s: STB=0x%x SRE=0x%x: bit6 should be %d", when, stb, sre, e6);
}

/* MSS by definition: some summary bit that the registers imply is enabled in SRE */
static int model_mss(const uint16_t * r, int nerr) {
    uint16_t stb = 0;
    if (r[SCPI_REG_ESR] & r[SCPI_REG_ESE]) stb |= STB_ESR;
    if (r[SCPI_REG_OPER] & r[SCPI_REG_OPERE]) stb |= STB_OPS;
    if (r[SCPI_REG_QUES] & r[SCPI_REG_QUESE]) stb |= STB_QES;
    if (nerr > 0) stb |= STB_QMA;
    stb |= (uint16_t) (r[SCPI_REG_STB] & 0x13);      /* bits 0, 1 and 4 belong to the application and are what it last wrote */
    return (stb & r[SCPI_REG_SRE] & 0xff & ~STB_SRQ) != 0;
}

static int apply(int op) {
    const op_t * o = &ops[op];
    uint16_t before[SCPI_REG_COUNT], after[SCPI_REG_COUNT];
    int cnt_before = (int) SCPI_ErrorCount(&ctx), i;
    static const int evreg[3] = {SCPI_REG_ESR, SCPI_REG_OPER, SCPI_REG_QUES};
    int may_clear[3] = {0, 0, 0};
    scpi_error_t e;
    for (i = 0; i < SCPI_REG_COUNT; i++) before[i] = SCPI_RegGet(&ctx, (scpi_reg_name_t) i);
    nsrq = 0; outn = 0;
    switch (o->kind) {
        case OP_REGSET: SCPI_RegSet(&ctx, (scpi_reg_name_t) o->reg, o->val); break;
        case OP_SETBITS: SCPI_RegSetBits(&ctx, (scpi_reg_name_t) o->reg, o->val); break;
        case OP_CLRBITS: SCPI_RegClearBits(&ctx, (scpi_reg_name_t) o->reg, o->val); break;
        case OP_PUSH: SCPI_ErrorPush(&ctx, o->code); break;
        case OP_POP: SCPI_ErrorPop(&ctx, &e); break;
        case OP_CLEAR: SCPI_ErrorClear(&ctx); break;
        case OP_STBBACK: SCPI_RegSet(&ctx, SCPI_REG_STB, (scpi_reg_val_t) (SCPI_RegGet(&ctx, SCPI_REG_STB) & ~STB_SRQ)); break;
        default: SCPI_Input(&ctx, o->text, (int) strlen(o->text)); break;
    }
    for (i = 0; i < SCPI_REG_COUNT; i++) after[i] = SCPI_RegGet(&ctx, (scpi_reg_name_t) i);
    if (memcmp(before, after, sizeof before) || cnt_before != (int) SCPI_ErrorCount(&ctx)) n_nontrivial++;

    check_c11("after");

    if (do_c12) {
        /* which event registers may this operation clear? */
        if (o->kind == OP_REGSET || o->kind == OP_CLRBITS) for (i = 0; i < 3; i++) if (o->reg == evreg[i]) may_clear[i] = 1;
        if (o->kind == OP_CMD) {
            if (!strncmp(o->text, "*CLS", 4)) may_clear[0] = may_clear[1] = may_clear[2] = 1;
            if (!strncmp(o->text, "*ESR?", 5)) may_clear[0] = 1;
            if (!strncmp(o->text, "STAT:OPER?", 10)) may_clear[1] = 1;
            if (!strncmp(o->text, "STAT:QUES?", 10)) may_clear[2] = 1;
            if (!strncmp(o->text, "STAT:PRES", 9)) may_clear[2] = 1;
        }
        for (i = 0; i < 3; i++) {
            if (!may_clear[i] && (before[evreg[i]] & ~after[evreg[i]]))
                mcx_viol("c12/event-bit-lost", "%s lost bits 0x%x (0x%x -> 0x%x) under an operation that is not defined to clear it",
                         regname[evreg[i]], before[evreg[i]] & ~after[evreg[i]], before[evreg[i]], after[evreg[i]]);
        }
        /* condition 0->1 latches the event bit */
        if (o->kind == OP_REGSET || o->kind == OP_SETBITS || o->kind == OP_CLRBITS) {
            int c = o->reg, ev = -1;
            if (c == SCPI_REG_OPERC) ev = SCPI_REG_OPER;
            if (c == SCPI_REG_QUESC) ev = SCPI_REG_QUES;
            if (ev >= 0) {
                uint16_t rising = (uint16_t) (after[c] & ~before[c]);
                n_latch++;
                if ((after[ev] & rising) != rising)
                    mcx_viol("c12/condition-not-latched", "%s 0x%x -> 0x%x but %s = 0x%x (was 0x%x)", regname[c], before[c], after[c], regname[ev], after[ev], before[ev]);
                if (after[ev] & ~(before[ev] | rising))
                    mcx_viol("c12/spurious-event", "%s 0x%x -> 0x%x set %s bits 0x%x that did not rise", regname[c], before[c], after[c], regname[ev], after[ev] & ~(before[ev] | rising));
            }
        }
        /* classification of the pushed code (the queue may overflow: -350 is device specific, so DER is tolerated then) */
        if (o->kind == OP_PUSH) {
            uint16_t want = (uint16_t) (before[SCPI_REG_ESR] | classbit(o->code));
            uint16_t alt = (cnt_before == QCAP) ? (uint16_t) (want | ESR_DER) : want;
            if (after[SCPI_REG_ESR] != want && after[SCPI_REG_ESR] != alt)
                mcx_viol("c12/class-bit", "push %d: ESR 0x%x -> 0x%x, expected 0x%x", o->code, before[SCPI_REG_ESR], after[SCPI_REG_ESR], want);
        }
        /* SRQ announcement */
        for (i = 0; i < nsrq; i++) {
            if (!(srq[i].stb & STB_SRQ)) mcx_viol("c12/srq-while-mss-0", "SRQ callback #%d with value 0x%x while STB=0x%x has MSS=0", i, srq[i].val, srq[i].stb);
            else if (srq[i].val != srq[i].stb) mcx_viol("c12/srq-value", "SRQ callback #%d value 0x%x but STB=0x%x at that instant", i, srq[i].val, srq[i].stb);
        }
        {   /* the same two clauses with MSS as the registers DEFINE it (C11), not as the status byte happens to show it */
            int mb = model_mss(before, cnt_before), ma = model_mss(after, (int) SCPI_ErrorCount(&ctx));
            if (!mb && ma && nsrq == 0) mcx_viol("c12/mss-rise-not-announced", "by the register contents MSS rises (ESR 0x%x/ESE 0x%x OPER 0x%x/0x%x QUES 0x%x/0x%x errors %d SRE 0x%x) but no SRQ callback was made; STB 0x%x -> 0x%x", after[SCPI_REG_ESR], after[SCPI_REG_ESE], after[SCPI_REG_OPER], after[SCPI_REG_OPERE], after[SCPI_REG_QUES], after[SCPI_REG_QUESE], (int) SCPI_ErrorCount(&ctx), after[SCPI_REG_SRE], before[SCPI_REG_STB], after[SCPI_REG_STB]);
            if (!mb && !ma && nsrq > 0 && o->kind != OP_CMD) /* within one message MSS may rise and fall again */ mcx_viol("c12/srq-while-mss-0", "SRQ callback although by the register contents MSS is 0 before and after (STB 0x%x -> 0x%x, SRE 0x%x)", before[SCPI_REG_STB], after[SCPI_REG_STB], after[SCPI_REG_SRE]);
        }
        if (!(before[SCPI_REG_STB] & STB_SRQ) && (after[SCPI_REG_STB] & STB_SRQ)) {
            n_mss_rise++;
            if (nsrq == 0) mcx_viol("c12/mss-rise-not-announced", "MSS rose (STB 0x%x -> 0x%x, SRE 0x%x -> 0x%x) without an SRQ callback", before[SCPI_REG_STB], after[SCPI_REG_STB], before[SCPI_REG_SRE], after[SCPI_REG_SRE]);
        }
    }
    return 1;
}

/* ---- C12(a): every 16-bit code ------------------------------------------------------------------- */
static unsigned long long sweep_codes(void) {
    long code;
    unsigned long long n = 0;
    int pre;
    for (code = -32768; code <= 32767; code++) {
        for (pre = 0; pre < 3; pre++) {      /* ESR empty / all other bits set / everything set */
            uint16_t cb = classbit((int) code), start = pre == 0 ? 0 : pre == 1 ? (uint16_t) (0xff & ~cb) : 0xff, got;
            if (!MC_CASE()) continue;
            mc_case_tag = "codes"; mc_case_i[0] = code; mc_case_i[1] = pre;
            memcpy(&ctx, &ctx0, sizeof ctx);
            memset(ering, 0, sizeof ering);
            ctx.registers[SCPI_REG_ESR] = start;
            nsrq = 0;
            SCPI_ErrorPush(&ctx, (int16_t) code);
            got = SCPI_RegGet(&ctx, SCPI_REG_ESR);
            n++;
            if (got != (uint16_t) (start | cb)) {
                char sig[64];
                snprintf(sig, sizeof sig, "c12/class-bit/%s", code > 0 ? "positive" : cb ? "standard-class" : "no-class");
                mc_viol(sig, "ErrorPush(%ld) with ESR=0x%x: ESR became 0x%x, expected 0x%x", code, start, got, (uint16_t) (start | cb));
            }
            if (SCPI_ErrorCount(&ctx) != 1) mc_viol("c12/push-not-queued", "ErrorPush(%ld): count=%d", code, (int) SCPI_ErrorCount(&ctx));
            if (pre == 0) mc_outcome(mc_hash(&got, 2, 7));
        }
    }
    return n;
}

/* ---- full 16-bit value sweeps: one register takes every value 0..65535 from several base states ------------- */
static void viol_plain(const char * sig, const char * fmt, ...) {
    char msg[512]; va_list ap;
    va_start(ap, fmt); vsnprintf(msg, sizeof msg, fmt, ap); va_end(ap);
    mc_viol(sig, "%s", msg);
}
static void plain_c11(const char * what, int reg, unsigned v, int base) {
    uint16_t stb = SCPI_RegGet(&ctx, SCPI_REG_STB), sre = SCPI_RegGet(&ctx, SCPI_REG_SRE);
    int e5 = (SCPI_RegGet(&ctx, SCPI_REG_ESR) & SCPI_RegGet(&ctx, SCPI_REG_ESE)) != 0, e7 = (SCPI_RegGet(&ctx, SCPI_REG_OPER) & SCPI_RegGet(&ctx, SCPI_REG_OPERE)) != 0;
    int e3 = (SCPI_RegGet(&ctx, SCPI_REG_QUES) & SCPI_RegGet(&ctx, SCPI_REG_QUESE)) != 0, e2 = SCPI_ErrorCount(&ctx) > 0, e6;
    const char * bad = NULL;
    if (((stb & STB_ESR) != 0) != e5) bad = "c11/esb-summary/value-sweep";
    else if (((stb & STB_OPS) != 0) != e7) bad = "c11/oper-summary/value-sweep";
    else if (((stb & STB_QES) != 0) != e3) bad = "c11/ques-summary/value-sweep";
    else if (((stb & STB_QMA) != 0) != e2) bad = "c11/error-available/value-sweep";
    else { e6 = ((stb & ~STB_SRQ) & sre & 0xff) != 0; if (((stb & STB_SRQ) != 0) != e6) bad = "c11/mss/value-sweep"; }
    if (bad) viol_plain(bad, "base state %d, %s(%s, 0x%x): STB=0x%x SRE=0x%x ESR=0x%x ESE=0x%x OPER=0x%x OPERE=0x%x QUES=0x%x QUESE=0x%x errors=%d", base, what, regname[reg], v, stb, sre,
                        SCPI_RegGet(&ctx, SCPI_REG_ESR), SCPI_RegGet(&ctx, SCPI_REG_ESE), SCPI_RegGet(&ctx, SCPI_REG_OPER), SCPI_RegGet(&ctx, SCPI_REG_OPERE), SCPI_RegGet(&ctx, SCPI_REG_QUES), SCPI_RegGet(&ctx, SCPI_REG_QUESE), (int) SCPI_ErrorCount(&ctx));
}
static void make_base(int base) {
    memcpy(&ctx, &ctx0, sizeof ctx); memset(ering, 0, sizeof ering);
    if (base >= 1) { SCPI_RegSet(&ctx, SCPI_REG_ESE, 0xFFFF); SCPI_RegSet(&ctx, SCPI_REG_OPERE, 0xFFFF); SCPI_RegSet(&ctx, SCPI_REG_QUESE, 0xFFFF); SCPI_RegSet(&ctx, SCPI_REG_SRE, 0xFFFF); }
    if (base >= 2) { SCPI_RegSet(&ctx, SCPI_REG_OPERC, 0x5555); SCPI_RegSet(&ctx, SCPI_REG_QUESC, 0xAAAA); SCPI_RegSet(&ctx, SCPI_REG_ESR, 0x00A5); SCPI_ErrorPush(&ctx, -900); }
    if (base == 4) { SCPI_RegSet(&ctx, SCPI_REG_SRE, 0x00FF); SCPI_RegSet(&ctx, SCPI_REG_ESR, 0x8100); SCPI_RegSet(&ctx, SCPI_REG_OPERC, 0x4200); SCPI_RegSet(&ctx, SCPI_REG_QUESC, 0x2400); return; }
    if (base == 3) { SCPI_RegSet(&ctx, SCPI_REG_ESE, 0x8000); SCPI_RegSet(&ctx, SCPI_REG_OPERE, 0x0100); SCPI_RegSet(&ctx, SCPI_REG_QUESE, 0x0080); SCPI_RegSet(&ctx, SCPI_REG_SRE, 0x00A8); }
}
static unsigned long long sweep_values(void) {
    static const int wr[] = {SCPI_REG_ESR, SCPI_REG_ESE, SCPI_REG_OPER, SCPI_REG_OPERE, SCPI_REG_OPERC, SCPI_REG_QUES, SCPI_REG_QUESE, SCPI_REG_QUESC, SCPI_REG_SRE};
    unsigned long long n = 0;
    int base, i, bit;
    unsigned v;
    for (base = 0; base < 4; base++) for (i = 0; i < 9; i++) for (v = 0; v < 65536; v++) {
        int r = wr[i], ev = r == SCPI_REG_OPERC ? SCPI_REG_OPER : r == SCPI_REG_QUESC ? SCPI_REG_QUES : -1;
        uint16_t c0, e0;
        if (!MC_CASE()) continue;
        mc_case_tag = "value-sweep"; mc_case_i[0] = base; mc_case_i[1] = r; mc_case_i[2] = v;
        make_base(base);
        c0 = SCPI_RegGet(&ctx, (scpi_reg_name_t) r); e0 = ev >= 0 ? SCPI_RegGet(&ctx, (scpi_reg_name_t) ev) : 0;
        nsrq = 0;
        SCPI_RegSet(&ctx, (scpi_reg_name_t) r, (scpi_reg_val_t) v);
        n++;
        if (do_c11) plain_c11("RegSet", r, v, base);
        if (do_c12 && ev >= 0) {
            uint16_t rising = (uint16_t) (v & ~c0), e1 = SCPI_RegGet(&ctx, (scpi_reg_name_t) ev);
            if (e1 != (uint16_t) (e0 | rising)) viol_plain("c12/condition-not-latched/value-sweep", "base state %d, %s 0x%x -> 0x%x: %s = 0x%x, expected 0x%x", base, regname[r], c0, v, regname[ev], e1, (uint16_t) (e0 | rising));
        }
        if (v < 16) {        /* single-bit set / clear for every bit */
            bit = 1 << v;
            make_base(base); SCPI_RegSetBits(&ctx, (scpi_reg_name_t) r, (scpi_reg_val_t) bit); if (do_c11) plain_c11("RegSetBits", r, (unsigned) bit, base);
            if (do_c12 && ev >= 0 && !(c0 & bit) && !(SCPI_RegGet(&ctx, (scpi_reg_name_t) ev) & bit)) viol_plain("c12/condition-not-latched/value-sweep", "base state %d, RegSetBits(%s, 0x%x): event bit not latched", base, regname[r], bit);
            make_base(base); SCPI_RegClearBits(&ctx, (scpi_reg_name_t) r, (scpi_reg_val_t) bit); if (do_c11) plain_c11("RegClearBits", r, (unsigned) bit, base);
            n += 2;
        }
    }
    {   /* SCPI_RegSetBits / SCPI_RegClearBits with every mask over four spread bits, on every prior value over the same bits */
        static const uint16_t sb[4] = {0x0001, 0x0020, 0x0100, 0x8000};
        unsigned v0, m;
        int k;
        for (base = 0; base < 4; base++) for (i = 0; i < 9; i++) for (v0 = 0; v0 < 16; v0++) for (m = 0; m < 16; m++) for (k = 0; k < 2; k++) {
            int r = wr[i], ev = r == SCPI_REG_OPERC ? SCPI_REG_OPER : r == SCPI_REG_QUESC ? SCPI_REG_QUES : -1;
            uint16_t val0 = 0, mask = 0, want, got, e0, e1;
            int b2;
            if (!MC_CASE()) continue;
            for (b2 = 0; b2 < 4; b2++) { if (v0 & (1u << b2)) val0 |= sb[b2]; if (m & (1u << b2)) mask |= sb[b2]; }
            mc_case_tag = "mask-sweep"; mc_case_i[0] = base; mc_case_i[1] = r; mc_case_i[2] = val0; mc_case_i[3] = mask; mc_case_i[4] = k;
            make_base(base);
            SCPI_RegSet(&ctx, (scpi_reg_name_t) r, val0);
            e0 = ev >= 0 ? SCPI_RegGet(&ctx, (scpi_reg_name_t) ev) : 0;
            if (k == 0) { SCPI_RegSetBits(&ctx, (scpi_reg_name_t) r, mask); want = (uint16_t) (val0 | mask); }
            else { SCPI_RegClearBits(&ctx, (scpi_reg_name_t) r, mask); want = (uint16_t) (val0 & ~mask); }
            got = SCPI_RegGet(&ctx, (scpi_reg_name_t) r);
            n++;
            if (got != want) viol_plain(do_c11 ? "c11/register-value/mask-sweep" : "c12/register-value/mask-sweep", "base state %d, %s = 0x%x, then %s(0x%x): register reads 0x%x, expected 0x%x", base, regname[r], val0, k ? "RegClearBits" : "RegSetBits", mask, got, want);
            if (do_c11) plain_c11(k ? "RegClearBits" : "RegSetBits", r, mask, base);
            if (do_c12 && ev >= 0) {
                e1 = SCPI_RegGet(&ctx, (scpi_reg_name_t) ev);
                if (e1 != (uint16_t) (e0 | (want & ~val0))) viol_plain("c12/condition-not-latched/mask-sweep", "base state %d, %s 0x%x -> 0x%x by %s(0x%x): %s = 0x%x, expected 0x%x", base, regname[r], val0, want, k ? "RegClearBits" : "RegSetBits", mask, regname[ev], e1, (uint16_t) (e0 | (want & ~val0)));
            }
        }
    }
    {   /* the enable COMMANDS with every argument 0..65535, from the base states and from one whose pending events sit in the upper
         * byte: whatever the command stores, the summary bits must agree with what the registers read back afterwards */
        static const struct { int reg; const char * cmd; } en[4] = {{SCPI_REG_ESE, "*ESE"}, {SCPI_REG_SRE, "*SRE"}, {SCPI_REG_OPERE, "STAT:OPER:ENAB"}, {SCPI_REG_QUESE, "STAT:QUES:ENAB"}};
        char t[48];
        for (base = 0; base < 5; base++) for (i = 0; i < 4; i++) for (v = 0; v < 65536; v++) {
            int l;
            if (mc_thorough ? 0 : (base == 1 || base == 3) && (v & 0xff) != 0 && (v >> 8) != 0 && (v & (v - 1))) continue;      /* quick: two of the five bases only with one-byte or one-bit values */
            if (!MC_CASE()) continue;
            mc_case_tag = "enable-command-sweep"; mc_case_i[0] = base; mc_case_i[1] = en[i].reg; mc_case_i[2] = v;
            make_base(base);
            l = snprintf(t, sizeof t, "%s %u\n", en[i].cmd, v);
            SCPI_Input(&ctx, t, l);
            n++;
            if (do_c11) plain_c11(en[i].cmd, en[i].reg, v, base);
            if (do_c11 && v < 256) { l = snprintf(t, sizeof t, "%s 0\n", en[i].cmd); SCPI_Input(&ctx, t, l); plain_c11(en[i].cmd, en[i].reg, 0, base); n++; }
        }
    }
    {   /* status-byte bits owned by the application (0, 1, 4): set / cleared in every combination against every SRE byte, SRE written
         * before or after and through the register call or *SRE; they take part in MSS like the library's own summary bits */
        static const uint16_t ab[3] = {0x01, 0x02, 0x10};
        unsigned m, sre, ord;
        char t[32];
        for (base = 0; base < 5; base++) for (m = 1; m < 8; m++) for (sre = 0; sre < 256; sre++) for (ord = 0; ord < 3; ord++) {
            uint16_t mask = 0; int b2, l;
            if (!MC_CASE()) continue;
            for (b2 = 0; b2 < 3; b2++) if (m & (1u << b2)) mask |= ab[b2];
            mc_case_tag = "application-stb-bits"; mc_case_i[0] = base; mc_case_i[1] = mask; mc_case_i[2] = sre; mc_case_i[3] = ord;
            make_base(base);
            if (base >= 1 && base <= 3) { SCPI_RegSet(&ctx, SCPI_REG_ESE, 0); SCPI_RegSet(&ctx, SCPI_REG_OPERE, 0); SCPI_RegSet(&ctx, SCPI_REG_QUESE, 0); }
            l = snprintf(t, sizeof t, "*SRE %u\n", sre);
            if (ord == 0) SCPI_RegSet(&ctx, SCPI_REG_SRE, (scpi_reg_val_t) sre);
            SCPI_RegSetBits(&ctx, SCPI_REG_STB, mask);
            if (do_c11) plain_c11("RegSetBits", SCPI_REG_STB, mask, base);
            if (ord == 1) SCPI_RegSet(&ctx, SCPI_REG_SRE, (scpi_reg_val_t) sre);
            if (ord == 2) SCPI_Input(&ctx, t, l);
            if (do_c11) plain_c11("SRE write after RegSetBits", SCPI_REG_STB, mask, base);
            SCPI_ErrorPush(&ctx, -100);
            if (do_c11) plain_c11("ErrorPush after RegSetBits", SCPI_REG_STB, mask, base);
            /* the application writes the whole byte back as it reads it, bit 6 masked out (MSS is not a stored bit): MSS is recomputed */
            SCPI_RegSet(&ctx, SCPI_REG_STB, (scpi_reg_val_t) (SCPI_RegGet(&ctx, SCPI_REG_STB) & ~STB_SRQ));
            if (do_c11) plain_c11("RegSet(STB, STB without bit 6)", SCPI_REG_STB, mask, base);
            SCPI_RegClearBits(&ctx, SCPI_REG_STB, (scpi_reg_val_t) (mask & 0x11));
            if (do_c11) plain_c11("RegClearBits", SCPI_REG_STB, mask & 0x11, base);
            SCPI_RegSet(&ctx, SCPI_REG_STB, (scpi_reg_val_t) (SCPI_RegGet(&ctx, SCPI_REG_STB) & ~STB_SRQ));
            if (do_c11) plain_c11("RegSet(STB, STB without bit 6) after RegClearBits", SCPI_REG_STB, mask, base);
            n += 6;
        }
    }
    {   /* a queue that overflows: every ESE byte x 5 codes, the same code pushed until two pushes after the queue is full; whatever the
         * overflow adds to ESR, the summary bits agree with the registers after every push */
        static const int codes[5] = {-113, -222, -350, 1, -410};
        unsigned ese; int ci, k2;
        for (ese = 0; ese < 256; ese++) for (ci = 0; ci < 5; ci++) {
            if (!MC_CASE()) continue;
            mc_case_tag = "overflow-sweep"; mc_case_i[0] = ese; mc_case_i[1] = codes[ci];
            make_base(0);
            SCPI_RegSet(&ctx, SCPI_REG_ESE, (scpi_reg_val_t) ese); SCPI_RegSet(&ctx, SCPI_REG_SRE, STB_ESR);
            for (k2 = 0; k2 < QCAP + 2; k2++) {
                SCPI_ErrorPush(&ctx, (int16_t) codes[ci]);
                if (do_c11) plain_c11("ErrorPush filling the queue", SCPI_REG_ESE, ese, 0);
                n++;
            }
        }
    }
    return n;
}

#if USE_DEVICE_DEPENDENT_ERROR_INFORMATION && !USE_MEMORY_ALLOCATION_FREE
/* ---- static-heap build: every history of <= 6 pushes with texts that fit / do not fit an 8-byte info heap, pops, clears and
 *      error queries; after every step the error-available bit, MSS and the count follow the reference queue (capacity 2) ------- */
static unsigned long long heap_histories(void) {
    static scpi_t hc; static char hib[64], hheap[8]; static scpi_error_t hring[2];
    static const char * nm[] = {"PushEx(-100,10 chars)", "PushEx(-200,\"ab\")", "PushEx(-300,\"\")", "ErrorPush(-400)", "ErrorPop", "ErrorClear", "SYST:ERR?", "PushEx(-100,7 chars)"};
    unsigned long long n = 0;
    int k, i, idx[8], K = mc_thorough ? 7 : 6;
    for (k = 1; k <= K; k++) {
        for (i = 0; i < k; i++) idx[i] = 0;
        for (;;) {
            if (MC_CASE()) {
                int count = 0;
                char hist[256]; size_t ho = 0;
                mc_case_tag = "heap-history";
                SCPI_Init(&hc, cmds, &itf, scpi_units_def, "a", "b", "c", "d", hib, sizeof hib, hring, 2);
                SCPI_InitHeap(&hc, hheap, sizeof hheap);
                SCPI_RegSet(&hc, SCPI_REG_SRE, STB_QMA);
                for (i = 0; i < k; i++) {
                    scpi_error_t e;
                    uint16_t stb;
                    ho += (size_t) snprintf(hist + ho, sizeof hist - ho, "%s; ", nm[idx[i]]);
                    switch (idx[i]) {
                        case 0: SCPI_ErrorPushEx(&hc, -100, (char *) "abcdefghij", 0); if (count < 2) count++; break;
                        case 1: SCPI_ErrorPushEx(&hc, -200, (char *) "ab", 0); if (count < 2) count++; break;
                        case 2: SCPI_ErrorPushEx(&hc, -300, (char *) "", 0); if (count < 2) count++; break;
                        case 3: SCPI_ErrorPush(&hc, -400); if (count < 2) count++; break;
                        case 4: SCPI_ErrorPop(&hc, &e); if (e.device_dependent_info) scpiheap_free(&hc.error_info_heap, e.device_dependent_info, FALSE); if (count) count--; break;
                        case 5: SCPI_ErrorClear(&hc); count = 0; break;
                        case 6: outn = 0; SCPI_Input(&hc, "SYST:ERR?\n", 10); if (count) count--; break;
                        default: SCPI_ErrorPushEx(&hc, -100, (char *) "abcdefg", 0); if (count < 2) count++; break;
                    }
                    n++;
                    stb = SCPI_RegGet(&hc, SCPI_REG_STB);
                    if ((int) SCPI_ErrorCount(&hc) != count || ((stb & STB_QMA) != 0) != (count > 0) || ((stb & STB_SRQ) != 0) != (count > 0)) {
                        viol_plain("c11/error-available/static-heap", "8-byte info heap, queue of 2, history [%s]: reference count %d, SCPI_ErrorCount %d, STB 0x%x", hist, count, (int) SCPI_ErrorCount(&hc), stb);
                        break;
                    }
                }
            }
            for (i = k - 1; i >= 0; i--) { if (++idx[i] < 8) break; idx[i] = 0; }
            if (i < 0) break;
        }
    }
    return n;
}
#endif

/* ---- a large error queue: the error-available bit follows the number of queued errors beyond 255 entries ------ */
static unsigned long long big_queue(void) {
    static scpi_t bc; static char bib[32]; static scpi_error_t * bring;
    int cap = 300, step, count = 0;
    unsigned long long n = 0;
    scpi_error_t e;
    if (!MC_CASE()) return 0;
    mc_case_tag = "big-queue";
    bring = (scpi_error_t *) calloc((size_t) cap, sizeof (scpi_error_t));
    SCPI_Init(&bc, cmds, &itf, scpi_units_def, "a", "b", "c", "d", bib, sizeof bib, bring, (int16_t) cap);
    SCPI_RegSet(&bc, SCPI_REG_SRE, STB_QMA);
    for (step = 0; step < 1400; step++) {
        int push = step < 280 || (step >= 560 && step < 870);       /* 280 pushes, 280 pops, 310 pushes (overflow at 300), pops until empty */
        if (push) { SCPI_ErrorPush(&bc, -100 - (step % 50)); if (count < cap) count++; }
        else { SCPI_ErrorPop(&bc, &e); if (count > 0) count--; }
        n++;
        if ((SCPI_ErrorCount(&bc) != count) || (((SCPI_RegGet(&bc, SCPI_REG_STB) & STB_QMA) != 0) != (count > 0)) || (((SCPI_RegGet(&bc, SCPI_REG_STB) & STB_SRQ) != 0) != (count > 0))) {
            viol_plain("c11/error-available/large-queue", "queue of %d entries, step %d (%s): model count %d, SCPI_ErrorCount %d, STB 0x%x", cap, step, push ? "push" : "pop", count, (int) SCPI_ErrorCount(&bc), SCPI_RegGet(&bc, SCPI_REG_STB));
            break;
        }
    }
    free(bring);
    return n;
}

static void set_bits(int focus, int wide, int narrow) {
    /* focus: -1 = `narrow` bits everywhere; 0..2 = that group gets `wide` bits, the others `narrow` */
    int r;
    static const uint16_t evb[3][3] = {{0x20, 0x40, 0x200}, {0x01, 0x40, 0x200}, {0x01, 0x40, 0x200}};
    static const int grp[SCPI_REG_COUNT] = {-1, -1, 0, 0, 1, 1, 1, 2, 2, 2};
    static const uint16_t parent[3] = {STB_ESR, STB_OPS, STB_QES};
    for (r = 0; r < SCPI_REG_COUNT; r++) {
        int g = grp[r], b;
        if (g < 0) continue;
        for (b = 0; b < 3; b++) repbit[r][b] = evb[g][b];
        nbits[r] = (g == focus) ? wide : narrow;
    }
    /* SRE: parent bit of the focus group (all three parents when there is no focus), the
     * error-available bit, and bit 6 together with a bit above 8 and the application's bit 4 */
    repbit[SCPI_REG_SRE][0] = focus < 0 ? (STB_ESR | STB_OPS | STB_QES) : parent[focus];
    repbit[SCPI_REG_SRE][1] = STB_QMA;
    repbit[SCPI_REG_SRE][2] = 0x40 | 0x200 | 0x10;
    nbits[SCPI_REG_SRE] = 3;
    nbits[SCPI_REG_STB] = 0;
}

int main(int argc, char ** argv) {
    mcx_t m;
    int focus, nrun = 0;
    unsigned long long states = 0, transitions = 0, ncodes = 0;
    int fix = 1, maxdepth = 0;
    mc_init(argc, argv);
#ifdef C12_MODE
    do_c11 = 0;
#else
    do_c12 = 0;
#endif
    SCPI_Init(&ctx0, cmds, &itf, scpi_units_def, "a", "b", "c", "d", ibuf, sizeof ibuf, ering, QCAP);
    memcpy(&ctx, &ctx0, sizeof ctx);

    /* runs (focus, wide, narrow); the code sweep is shared by all shards */
    {
        int runs[8][3], nr = 0, k;
#define ADD_RUN(f, w, n) do { runs[nr][0] = (f); runs[nr][1] = (w); runs[nr][2] = (n); nr++; } while (0)
#ifdef MC_FLAVOR_FAST
        if (mc_thorough) { ADD_RUN(1, 3, 1); ADD_RUN(2, 3, 1); ADD_RUN(0, 3, 1); ADD_RUN(-1, 2, 2); }
        else { ADD_RUN(1, 2, 1); ADD_RUN(2, 2, 1); ADD_RUN(0, 2, 1); }
#else
        ADD_RUN(-1, 1, 1);
        if (mc_thorough) { ADD_RUN(1, 2, 1); ADD_RUN(2, 2, 1); ADD_RUN(0, 2, 1); }
#endif
#if USE_DEVICE_DEPENDENT_ERROR_INFORMATION && !USE_MEMORY_ALLOCATION_FREE
        nr = 0;                                /* static-heap build: only the heap histories below */
#endif
        for (k = 0; k < nr; k++) {
            if ((unsigned long long) k % mc_nshards != mc_shard) continue;
            focus = runs[k][0];
            set_bits(focus, runs[k][1], runs[k][2]);
            build_ops();
            memset(&m, 0, sizeof m);
            m.key_size = KEYSZ; m.snap_size = 0; m.nops = nops;
            m.load = st_load; m.save = st_save; m.apply = apply; m.opname = opname;
            m.max_states = 120000000ULL;
            memcpy(&ctx, &ctx0, sizeof ctx); memset(ering, 0, sizeof ering);
            check_c11("initial");
            mcx_run(&m);
            states += m.states; transitions += m.transitions; fix &= m.fixpoint; nrun++;
            if (m.depth_reached > maxdepth) maxdepth = m.depth_reached;
            {
                char nm[96];
                mcx_render_trace(&m, (uint32_t) (m.states - 1), -1);
                mc_sample("bfs focus=%d bits=%d/%d ops=%d states=%llu transitions=%llu depth=%d fixpoint=%d; deepest history: %s", focus, runs[k][1], runs[k][2], nops, m.states, m.transitions, m.depth_reached, m.fixpoint, mcx_tracebuf);
                (void) nm;
            }
            {   /* outcome set = the distinct (STB, SRE) pairs reached */
                size_t i;
                for (i = 0; i < m.states; i++) mc_outcome(mc_hash(m.keys + i * KEYSZ, 4, 1));
            }
            mcx_free(&m);
        }
    }
#if USE_DEVICE_DEPENDENT_ERROR_INFORMATION && !USE_MEMORY_ALLOCATION_FREE
    mc_phase(1);
    { unsigned long long nh = heap_histories(); ncodes += nh; if (mc_shard == 0) mc_sample("static-heap build: every history of <= 6 operations over 8 (pushes with texts that fit / do not fit / are empty, pop, clear, SYST:ERR?) on an 8-byte info heap"); }
#else
#ifndef MC_FLAVOR_FAST
    mc_phase(1);          /* the BFS runs advanced the case counter of some shards only */
    {
        unsigned long long nv = sweep_values() + (do_c11 ? big_queue() : 0);
        ncodes += nv;
        if (mc_shard == 0) mc_sample("value sweep: RegSet(r, v) for each of the nine writable registers r and every v in 0..65535 from 4 base states; single-bit set/clear of every bit; a 300-entry error queue filled and drained");
    }
    if (do_c12) {
        ncodes += sweep_codes();
        if (mc_shard == 0) mc_sample("code sweep: ErrorPush(c) for every c in -32768..32767 on ESR in {0, ~class, 0xff}");
    }
#endif
#endif
    mc_stat("states", states);
    mc_stat("transitions", transitions + ncodes);
    mc_stat("traces_validated", transitions + ncodes);
    mc_stat("nontrivial", n_nontrivial + ncodes);
    mc_stat("invariant_checks", n_checks);
    mc_stat("mss_rises_checked", n_mss_rise);
    mc_stat("condition_writes_checked", n_latch);
    mc_stat("srq_callbacks", total_srq);
    mc_stat("bfs_runs", (unsigned long long) nrun);
    mc_stat("codes_pushed", ncodes);
    mc_stat("max_depth", (unsigned long long) maxdepth);
    mc_executed += transitions;
    return mc_finish();
}
