/* ctx.h - a real scpi_t on exact-size heap buffers with an observable trace, shared by the
 * harnesses that drive SCPI_Input / SCPI_Parse.
 *   OUT[0..OUTN)   bytes given to interface write()
 *   TR[0..TRN)     event log: handler events (written by the harness), E<code>; error callback,
 *                  F@<outpos>; flush, S<val>/<stb>; service request, R<0|1>; SCPI_Input result
 * Differential oracles compare OUT and TR byte for byte.
 */
#ifndef CTX_H
#define CTX_H
#include "scpi/scpi.h"
#include "utils_private.h"
#include "mc.h"

extern int mc_tail_poison;

#define OUT_MAX 8192
#define TR_MAX 16384
static char OUT[OUT_MAX]; static size_t OUTN;
static unsigned long long OUT_TOTAL; static uint64_t OUT_HASH;     /* all bytes written, also beyond OUT_MAX */
static char TR[TR_MAX]; static size_t TRN;
static int tc_flushes, tc_nerr, tc_errs[64];
static int tc_log_flush = 1;
static size_t tc_heap_len = 64;      /* static info heap size (heap configuration only) */

static void tr_add(const void * p, size_t n) { if (TRN + n < TR_MAX) { memcpy(TR + TRN, p, n); TRN += n; } else TRN = TR_MAX - 1; TR[TRN] = 0; }
static void tr_printf(const char * fmt, ...) {
    char b[512];
    va_list ap;
    int n;
    va_start(ap, fmt); n = vsnprintf(b, sizeof b, fmt, ap); va_end(ap);
    if (n > (int) sizeof b - 1) n = (int) sizeof b - 1;
    if (n > 0) tr_add(b, (size_t) n);
}
static void tr_reset(void) { OUT_TOTAL = 0; OUT_HASH = 0xcbf29ce484222325ULL; OUTN = 0; TRN = 0; OUT[0] = 0; TR[0] = 0; tc_flushes = 0; tc_nerr = 0; }

static size_t tc_write(scpi_t * c, const char * d, size_t n) { size_t i; (void) c; OUT_TOTAL += n; for (i = 0; i < n; i++) { OUT_HASH ^= (unsigned char) d[i]; OUT_HASH *= 0x100000001b3ULL; } if (OUTN + n < OUT_MAX) { memcpy(OUT + OUTN, d, n); OUTN += n; OUT[OUTN] = 0; } return n; }
static int tc_error(scpi_t * c, int_fast16_t e) { (void) c; if (tc_nerr < 64) tc_errs[tc_nerr++] = (int) e; tr_printf("E%d;", (int) e); return 0; }
static scpi_result_t tc_control(scpi_t * c, scpi_ctrl_name_t ctrl, scpi_reg_val_t val) { if (ctrl == SCPI_CTRL_SRQ) tr_printf("S%u/%u;", (unsigned) val, (unsigned) SCPI_RegGet(c, SCPI_REG_STB)); return SCPI_RES_OK; }
static scpi_result_t tc_flush(scpi_t * c) { (void) c; tc_flushes++; if (tc_log_flush) tr_printf("F@%u;", (unsigned) OUTN); return SCPI_RES_OK; }
static scpi_interface_t tc_itf = { tc_error, tc_write, tc_control, tc_flush, NULL };

typedef struct {
    scpi_t ctx;
    char * ibuf; size_t ibuf_len;
    scpi_error_t * ering; int ering_len;
#if USE_DEVICE_DEPENDENT_ERROR_INFORMATION && !USE_MEMORY_ALLOCATION_FREE
    char * heap; size_t heap_len;
#endif
} tc_t;

static void tc_init(tc_t * t, const scpi_command_t * cmds, size_t ibuf_len, int ering_len) {
    memset(t, 0, sizeof *t);
    t->ibuf = (char *) mc_xalloc(ibuf_len); t->ibuf_len = ibuf_len;
    t->ering = (scpi_error_t *) mc_xalloc(sizeof (scpi_error_t) * (size_t) ering_len); t->ering_len = ering_len;
    memset(t->ering, 0, sizeof (scpi_error_t) * (size_t) ering_len);
    SCPI_Init(&t->ctx, cmds, &tc_itf, scpi_units_def, "MANUF", "MODEL", NULL, "REV", t->ibuf, ibuf_len, t->ering, (int16_t) ering_len);
#if USE_DEVICE_DEPENDENT_ERROR_INFORMATION && !USE_MEMORY_ALLOCATION_FREE
    t->heap_len = tc_heap_len; t->heap = (char *) mc_xalloc(t->heap_len);
    SCPI_InitHeap(&t->ctx, t->heap, t->heap_len);
#endif
}

/* drop queued errors (releasing their texts) */
static void tc_drain(tc_t * t) { SCPI_ErrorClear(&t->ctx); }

static void tc_free(tc_t * t) {
    tc_drain(t);
    ASAN_UNPOISON_MEMORY_REGION(t->ibuf, t->ibuf_len);
    free(t->ibuf); free(t->ering);
#if USE_DEVICE_DEPENDENT_ERROR_INFORMATION && !USE_MEMORY_ALLOCATION_FREE
    free(t->heap);
#endif
}

/* bring a used context back to the state of a fresh one without reallocating (cheap re-use) */
static void tc_reinit(tc_t * t, const scpi_command_t * cmds) {
    tc_drain(t);
    ASAN_UNPOISON_MEMORY_REGION(t->ibuf, t->ibuf_len);
    memset(t->ibuf, 0xA5, t->ibuf_len);
    memset(t->ering, 0, sizeof (scpi_error_t) * (size_t) t->ering_len);
    SCPI_Init(&t->ctx, cmds, &tc_itf, scpi_units_def, "MANUF", "MODEL", NULL, "REV", t->ibuf, t->ibuf_len, t->ering, (int16_t) t->ering_len);
#if USE_DEVICE_DEPENDENT_ERROR_INFORMATION && !USE_MEMORY_ALLOCATION_FREE
    SCPI_InitHeap(&t->ctx, t->heap, t->heap_len);
#endif
}

/* pop one queued error: code, and copy of the device-dependent text (released afterwards) */
static int tc_pop(tc_t * t, char * info, size_t infosz) {
    scpi_error_t e;
    info[0] = 0;
    SCPI_ErrorPop(&t->ctx, &e);
#if USE_DEVICE_DEPENDENT_ERROR_INFORMATION
    if (e.device_dependent_info) {
#if USE_MEMORY_ALLOCATION_FREE
        snprintf(info, infosz, "%s", e.device_dependent_info);
        free(e.device_dependent_info);
#else
        {
            const char * s2; size_t l1 = 0, l2 = 0;
            if (scpiheap_get_parts(&t->ctx.error_info_heap, e.device_dependent_info, &l1, &s2, &l2)) {
                size_t o = 0;
                if (l1 < infosz) { memcpy(info, e.device_dependent_info, l1); o = l1; }
                if (s2 && o + l2 < infosz) { memcpy(info + o, s2, l2); o += l2; }
                info[o] = 0;
            }
            scpiheap_free(&t->ctx.error_info_heap, e.device_dependent_info, FALSE);
        }
#endif
    }
#endif
    return e.error_code;
}
#endif
