/* mc.h - common support for the bounded-exhaustive / explicit-state harnesses.
 *
 * Every harness is one C file that #includes this header, is compiled together with the
 * library sources of /repo's working tree, and is started by bin/check as N shard processes:
 *
 *     harness --tier quick|thorough --shard i --nshards n [--skip K] [--only K] [--deadline S]
 *
 * Protocol on stdout (one record per line, parsed by bin/check):
 *     STAT <name> <integer>          counters, summed over shards (max_* : maximum)
 *     SAMPLE <text>                  an actual explored case, written out
 *     VIOL idx=<k> sig=<signature> :: <description of the failing case>
 *     CAP <what>                     a bound/deadline was hit; exhaustive becomes false
 *     DONE                           shard finished its enumeration
 *
 * Case numbering: MC_CASE() is called once per enumerated case, in a deterministic order that
 * depends only on --tier.  Case k is executed by shard (k mod nshards); --skip K suppresses all
 * cases <= K (used to restart a shard behind a case that killed the process), --only K executes
 * exactly case K (replay).  A sanitizer report, fatal signal or watchdog expiry prints a VIOL
 * record for the running case before the process dies.
 */
#ifndef MC_H
#define MC_H

#include <stdio.h>
#include <stdlib.h>
#include <string.h>
#include <stdint.h>
#include <stdarg.h>
#include <signal.h>
#include <unistd.h>
#include <time.h>
#include <sys/time.h>

static const char * mc_tier = "quick";
static int mc_thorough = 0;
static unsigned long long mc_shard = 0, mc_nshards = 1, mc_skip = 0, mc_only = 0;
static unsigned long long mc_idx = 0;          /* running case number (1-based) */
static unsigned long long mc_executed = 0;
static double mc_deadline = 0;                 /* seconds of wall time for this shard, 0 = none */
static double mc_t0 = 0;
static int mc_capped = 0;
static long mc_seed = 0;
static const char * mc_outcomes_path = NULL;
static const char * mc_aux_path = NULL;        /* per-check auxiliary file (case table / record file) */

/* description of the running case for crash reports: up to 3 byte strings and 6 integers */
static const char * mc_case_tag = "";
static const unsigned char * mc_case_s[3];
static size_t mc_case_n[3];
static long long mc_case_i[6];

static double mc_now(void) {
    struct timespec ts;
    clock_gettime(CLOCK_MONOTONIC, &ts);
    return ts.tv_sec + ts.tv_nsec * 1e-9;
}

/* printable rendering of a byte string: \xHH for anything outside 0x21..0x7e, and for \ */
static size_t mc_esc(char * out, size_t outsz, const void * data, size_t n) {
    const unsigned char * p = (const unsigned char *) data;
    size_t o = 0, i;
    for (i = 0; i < n && o + 5 < outsz; i++) {
        unsigned char c = p[i];
        if (c > 0x20 && c < 0x7f && c != '\\') {
            out[o++] = (char) c;
        } else if (c == ' ') {
            out[o++] = '\\'; out[o++] = 's';
        } else if (c == '\n') {
            out[o++] = '\\'; out[o++] = 'n';
        } else if (c == '\r') {
            out[o++] = '\\'; out[o++] = 'r';
        } else if (c == '\t') {
            out[o++] = '\\'; out[o++] = 't';
        } else if (c == '\\') {
            out[o++] = '\\'; out[o++] = '\\';
        } else {
            static const char hx[] = "0123456789abcdef";
            out[o++] = '\\'; out[o++] = 'x'; out[o++] = hx[c >> 4]; out[o++] = hx[c & 15];
        }
    }
    out[o] = 0;
    return o;
}

static const char * mc_e(const void * data, size_t n) {
    static char bufs[16][2048];
    static int k = 0;
    char * b = bufs[k++ & 15];
    mc_esc(b, sizeof bufs[0], data, n);
    return b;
}

static const char * mc_es(const char * s) { return mc_e(s, strlen(s)); }

/* ---- violation reporting -------------------------------------------------------------- */
#define MC_MAX_SIGS 256
static struct { char sig[160]; unsigned long long n; } mc_sigs[MC_MAX_SIGS];
static int mc_nsigs = 0;
static unsigned long long mc_nviol = 0;
static int mc_viol_print_limit = 3;   /* records printed per signature */

static void mc_viol(const char * sig, const char * fmt, ...) {
    int i;
    va_list ap;
    mc_nviol++;
    for (i = 0; i < mc_nsigs; i++) if (!strcmp(mc_sigs[i].sig, sig)) break;
    if (i == mc_nsigs) {
        if (mc_nsigs == MC_MAX_SIGS) { i = MC_MAX_SIGS - 1; }
        else { snprintf(mc_sigs[i].sig, sizeof mc_sigs[i].sig, "%s", sig); mc_sigs[i].n = 0; mc_nsigs++; }
    }
    mc_sigs[i].n++;
    if (mc_sigs[i].n > (unsigned long long) mc_viol_print_limit) return;
    printf("VIOL idx=%llu sig=%s :: ", mc_idx, sig);
    va_start(ap, fmt);
    vprintf(fmt, ap);
    va_end(ap);
    printf("\n");
    fflush(stdout);
}

/* ---- crash / hang handling -------------------------------------------------------------- */
static volatile unsigned long long mc_wd_last = ~0ULL;
static volatile int mc_wd_strikes = 0;
static volatile unsigned long long mc_alive = 0;      /* bumped by long harness-internal loops (hash-table rebuilds ...) that run no case */
static volatile double mc_wd_cpu0 = 0;
static volatile int mc_wd_pause = 0;                  /* set around one long uninterruptible harness operation (realloc of a multi-GB state table) */
static int mc_dying = 0;

static void mc_emit_crash(const char * kind) {
    char line[4096];
    int o, k;
    if (mc_dying) return;
    mc_dying = 1;
    o = snprintf(line, sizeof line, "\nVIOL idx=%llu sig=crash/%s/%s :: tag=%s", mc_idx, kind, mc_case_tag, mc_case_tag);
    for (k = 0; k < 3; k++) {
        if (mc_case_s[k]) {
            o += snprintf(line + o, sizeof line - o, " s%d=[", k);
            o += (int) mc_esc(line + o, sizeof line - o - 64 > 1500 ? 1500 : sizeof line - o - 64, mc_case_s[k], mc_case_n[k]);
            o += snprintf(line + o, sizeof line - o, "]");
        }
    }
    o += snprintf(line + o, sizeof line - o, " i=%lld,%lld,%lld,%lld,%lld,%lld\n", mc_case_i[0], mc_case_i[1], mc_case_i[2], mc_case_i[3], mc_case_i[4], mc_case_i[5]);
    if (write(1, line, (size_t) o) < 0) { /* nothing to do */ }
}

static void mc_on_death(void) { mc_emit_crash("sanitizer"); }

static void mc_on_signal(int sig) {
    mc_emit_crash(sig == SIGSEGV ? "sigsegv" : sig == SIGBUS ? "sigbus" : sig == SIGFPE ? "sigfpe" : sig == SIGILL ? "sigill" : "sigabrt");
    _exit(97);
}

/* Hang = the process burns 20 s of its OWN CPU time without finishing a case (a machine that is merely busy with other work
 * must not look like a hang: the first thorough run next to other jobs reported one inside a 7.8 M state hash-table rebuild). */
static double mc_cpu_now(void) { struct timespec ts; clock_gettime(CLOCK_PROCESS_CPUTIME_ID, &ts); return (double) ts.tv_sec + (double) ts.tv_nsec * 1e-9; }
static void mc_on_alarm(int sig) {
    unsigned long long now = mc_idx + mc_alive;
    (void) sig;
    if (mc_wd_pause) { mc_wd_cpu0 = mc_cpu_now(); return; }
    if (mc_wd_last == now) {
        ++mc_wd_strikes;
        if (mc_cpu_now() - mc_wd_cpu0 >= 20.0) {
            mc_emit_crash("hang");
            _exit(98);
        }
    } else {
        mc_wd_last = now;
        mc_wd_strikes = 0;
        mc_wd_cpu0 = mc_cpu_now();
    }
}

#if defined(__has_feature)
#if __has_feature(address_sanitizer)
#define MC_ASAN 1
#endif
#endif
#if defined(__SANITIZE_ADDRESS__)
#define MC_ASAN 1
#endif
#ifdef MC_ASAN
#include <sanitizer/asan_interface.h>
#include <sanitizer/common_interface_defs.h>
#else
#define ASAN_POISON_MEMORY_REGION(a, s) ((void) (a), (void) (s))
#define ASAN_UNPOISON_MEMORY_REGION(a, s) ((void) (a), (void) (s))
#endif

/* ---- outcome set (distinct observable outcomes), open addressing ---------------------------- */
static uint64_t * mc_oset = NULL;
static size_t mc_oset_cap = 0, mc_oset_n = 0;
static int mc_oset_zero = 0;

static uint64_t mc_hash(const void * data, size_t n, uint64_t h) {
    const unsigned char * p = (const unsigned char *) data;
    size_t i;
    h ^= 0xcbf29ce484222325ULL;
    for (i = 0; i < n; i++) { h ^= p[i]; h *= 0x100000001b3ULL; }
    h ^= h >> 29; h *= 0xbf58476d1ce4e5b9ULL; h ^= h >> 32;
    return h;
}

static void mc_oset_grow(void) {
    size_t ncap = mc_oset_cap ? mc_oset_cap * 2 : 4096, i;
    uint64_t * nt = (uint64_t *) calloc(ncap, sizeof (uint64_t));
    if (!nt) { fprintf(stderr, "mc: out of memory\n"); exit(3); }
    for (i = 0; i < mc_oset_cap; i++) {
        uint64_t v = mc_oset[i];
        if (v) { size_t j = (size_t) (v & (ncap - 1)); while (nt[j]) j = (j + 1) & (ncap - 1); nt[j] = v; }
    }
    free(mc_oset);
    mc_oset = nt; mc_oset_cap = ncap;
}

/* returns 1 if the outcome hash was new */
static int mc_outcome(uint64_t h) {
    size_t j;
    if (h == 0) { if (mc_oset_zero) return 0; mc_oset_zero = 1; return 1; }
    if ((mc_oset_n + 1) * 2 > mc_oset_cap) mc_oset_grow();
    j = (size_t) (h & (mc_oset_cap - 1));
    while (mc_oset[j]) { if (mc_oset[j] == h) return 0; j = (j + 1) & (mc_oset_cap - 1); }
    mc_oset[j] = h; mc_oset_n++;
    return 1;
}

/* ---- statistics ----------------------------------------------------------------------------- */
static void mc_stat(const char * name, unsigned long long v) { printf("STAT %s %llu\n", name, v); }

static int mc_nsamples = 0;
static void mc_sample(const char * fmt, ...) {
    va_list ap;
    if (mc_nsamples >= 6) return;
    mc_nsamples++;
    printf("SAMPLE ");
    va_start(ap, fmt); vprintf(fmt, ap); va_end(ap);
    printf("\n");
}

/* ---- case gate ------------------------------------------------------------------------------- */
/* returns 1 if the case must be executed by this process */
static inline int mc_case(void) {
    mc_idx++;
    if (mc_only) { if (mc_idx == mc_only) { mc_case_s[0] = mc_case_s[1] = mc_case_s[2] = NULL; return 1; } return 0; }
    if (mc_idx <= mc_skip) return 0;
    if ((mc_idx % mc_nshards) != mc_shard) return 0;
    if (mc_capped) return 0;
    if (mc_deadline > 0 && (mc_executed & 0x3ff) == 0 && mc_now() - mc_t0 > mc_deadline) {
        mc_capped = 1;
        printf("CAP deadline %.0fs reached at case %llu\n", mc_deadline, mc_idx);
        return 0;
    }
    mc_executed++;
    mc_case_s[0] = mc_case_s[1] = mc_case_s[2] = NULL;      /* no stale case description in a crash report */
    return 1;
}
#define MC_CASE() mc_case()
/* An enumeration that follows a part whose case counter differs from shard to shard (a BFS run by one shard only) starts from a
 * common index, so that `idx % nshards` partitions its cases among the shards again. */
static inline void mc_phase(unsigned phase) { mc_idx = (unsigned long long) phase << 44; }

/* For range-sharded enumerations (e.g. 2^32 values): harness uses mc_shard/mc_nshards itself and
 * calls mc_range_tick() every so often to honour the deadline. */
static inline int mc_deadline_hit(void) {
    if (mc_capped) return 1;
    if (mc_deadline > 0 && mc_now() - mc_t0 > mc_deadline) { mc_capped = 1; printf("CAP deadline %.0fs reached\n", mc_deadline); return 1; }
    return 0;
}

static void mc_init(int argc, char ** argv) {
    int i;
    struct sigaction sa;
    struct itimerval it;
    for (i = 1; i < argc; i++) {
        if (!strcmp(argv[i], "--tier") && i + 1 < argc) mc_tier = argv[++i];
        else if (!strcmp(argv[i], "--shard") && i + 1 < argc) mc_shard = strtoull(argv[++i], NULL, 10);
        else if (!strcmp(argv[i], "--nshards") && i + 1 < argc) mc_nshards = strtoull(argv[++i], NULL, 10);
        else if (!strcmp(argv[i], "--skip") && i + 1 < argc) mc_skip = strtoull(argv[++i], NULL, 10);
        else if (!strcmp(argv[i], "--only") && i + 1 < argc) mc_only = strtoull(argv[++i], NULL, 10);
        else if (!strcmp(argv[i], "--deadline") && i + 1 < argc) mc_deadline = atof(argv[++i]);
        else if (!strcmp(argv[i], "--seed") && i + 1 < argc) mc_seed = atol(argv[++i]);
        else if (!strcmp(argv[i], "--outcomes") && i + 1 < argc) mc_outcomes_path = argv[++i];
        else if (!strcmp(argv[i], "--aux") && i + 1 < argc) mc_aux_path = argv[++i];
    }
    if (mc_nshards == 0) mc_nshards = 1;
    mc_thorough = !strcmp(mc_tier, "thorough");
    mc_t0 = mc_now();
    setvbuf(stdout, NULL, _IOFBF, 1 << 16);

    memset(&sa, 0, sizeof sa);
    sa.sa_handler = mc_on_signal;
#ifndef MC_ASAN   /* under ASan the sanitizer reports these itself and then runs mc_on_death */
    sigaction(SIGSEGV, &sa, NULL); sigaction(SIGBUS, &sa, NULL); sigaction(SIGFPE, &sa, NULL);
    sigaction(SIGILL, &sa, NULL);
#endif
    sigaction(SIGABRT, &sa, NULL);
    sa.sa_handler = mc_on_alarm;
    sa.sa_flags = SA_RESTART;
    sigaction(SIGALRM, &sa, NULL);
    it.it_interval.tv_sec = 5; it.it_interval.tv_usec = 0; it.it_value = it.it_interval;
    setitimer(ITIMER_REAL, &it, NULL);
#ifdef MC_ASAN
    __sanitizer_set_death_callback(mc_on_death);
#endif
}

/* dump outcome hashes so that the driver can merge them across shards (bounded) */
static void mc_dump_outcomes(const char * path) {
    FILE * f;
    size_t i;
    if (!path || mc_oset_n > 4000000) return;
    f = fopen(path, "wb");
    if (!f) return;
    if (mc_oset_zero) { uint64_t z = 0; fwrite(&z, 8, 1, f); }
    for (i = 0; i < mc_oset_cap; i++) if (mc_oset[i]) fwrite(&mc_oset[i], 8, 1, f);
    fclose(f);
}

static int mc_finish(void) {
    int i;
    for (i = 0; i < mc_nsigs; i++) printf("SIGCOUNT %s %llu\n", mc_sigs[i].sig, mc_sigs[i].n);
    mc_stat("cases_enumerated", mc_only ? 0 : mc_idx);   /* identical in every shard: driver takes max */
    mc_stat("cases_executed", mc_executed);
    mc_stat("violations", mc_nviol);
    mc_stat("distinct_outcomes_shard", mc_oset_n + (size_t) mc_oset_zero);
    mc_dump_outcomes(mc_outcomes_path);
    printf("DONE\n");
    fflush(stdout);
    return 0;
}


/* exact-size heap block filled with a pattern (so that results never depend on allocator history) */
static void * mc_xalloc(size_t n) {
    void * p = malloc(n);
    if (!p) { fprintf(stderr, "mc: out of memory\n"); exit(3); }
    if (n) memset(p, 0xA5, n);
    return p;
}

#endif /* MC_H */
